(* Correspondence cases for C11: an operation sequence run on a real adapter, what it answered, and how the
   adapter model (c11_check) and the engine contract (c11_oracle) judge the answers. *)
From KB Require Export Model.Adapters.

Inductive eng := EMem | EBadger | ETiKV | EWrapMem | EWrapBadger | EWrapTiKV.

Definition adapter_of (e : eng) : adapter :=
  match e with
  | EMem => memkv
  | EBadger => badger
  | ETiKV => tikv
  | EWrapMem => wrapper memkv
  | EWrapBadger => wrapper badger
  | EWrapTiKV => wrapper tikv
  end.

(* which reading of DelCurrent the engine implements (interface.go:75-77 allows both) *)
Definition mode_of (e : eng) : dcmode :=
  match e with
  | EBadger | EWrapBadger => ByVersion
  | _ => ByValue
  end.

(* batch operations as the driver issues them; BDelCurH = BatchWrite.DelCurrent(the held iterator) *)
Inductive sbop :=
| BPutNX (k v : bytes) (ttl : N)
| BCAS (k nv ov : bytes) (ttl : N)
| BPut (k v : bytes) (ttl : N)
| BDel (k : bytes)
| BDelCurH.

Inductive sop :=
| SBatch (ops : list sbop)
| SGet (k : bytes)
| SDel (k : bytes)
| SIter (a b : bytes) (limit : N)               (* open, Next until io.EOF, close *)
| SHold (a b : bytes) (limit : N) (j : nat)     (* open, Next j+1 times (or until io.EOF), keep the iterator *)
| SDelCur                                       (* KvStorage.DelCurrent(the held iterator) *)
| SHoldDrain (a b : bytes) (limit : N) (j : nat) (ops : list sbop).
    (* open an iterator, Next j+1 times (or until io.EOF), commit the batch `ops`, Next until io.EOF, close:
       "from one consistent snapshot" — what is drained after the batch still belongs to the moment of creation *)

Inductive obs :=
| OBatch (c : rclass) (cf : option conflict)
| OGet (c : rclass) (v : bytes)
| ODel (c : rclass)
| OIter (c : rclass) (out : store)
| OHold (c : rclass) (out : store) (held : bool)
| ODelCur (c : rclass) (cf : option conflict)
| OHoldDrain (c : rclass) (before : store) (bc : rclass) (bcf : option conflict) (after : store).

(* mk_c11: an operation sequence from the emptied engine, the answer to every step, the raw contents at the end.
   KBigBatch: one batch of n Puts on distinct keys of keylen bytes, followed (failing = true) by a CAS on a key that
   does not exist; the answer's class and how many of the n keys are stored afterwards.  The keys are not printed. *)
Inductive c11_case :=
| mk_c11 (c_eng : eng) (c_steps : list (sop * obs)) (c_final : store)
| KBigBatch (e : eng) (n keylen : N) (failing : bool) (c : rclass) (visible : N)
(* KWrapFault: the metrics wrapper over an engine that fails one call (0 Get, 1 Del, 2 DelCurrent, 3 Commit, 4 Iter)
   with an error of class `injected`; the class the wrapper's caller sees, and whether the stored record is still
   there afterwards.  The wrapper model is a pass-through: the error must arrive unchanged in class. *)
| KWrapFault (kind : N) (injected observed : rclass) (intact : bool)
(* KInterleave: batch 1 is begun with a guard (variant 0: CAS(guard, v1, v1); 1: CAS(guard, v1b, v1); otherwise
   PutIfNotExist(guard)) and a Put of `other`; batch 2 rewrites the guarded key and commits; batch 1 commits.
   b2first: batch 2 had committed before batch 1's Commit was called (memkv keeps its mutex from BeginBatchWrite, so
   there batch 2 waits); c1: the class of batch 1; whether `other` exists afterwards; whether the guarded key holds
   batch 2's value. *)
| KInterleave (e : eng) (variant : N) (b2first : bool) (c1 : rclass) (other guard2 : bool).

(* ---------- running a sequence on an adapter model ---------- *)

Definition resolve (h : option item) (o : sbop) : option bop :=
  match o with
  | BPutNX k v t => Some (PutIfNotExist k v t)
  | BCAS k nv ov t => Some (CAS k nv ov t)
  | BPut k v t => Some (Put k v t)
  | BDel k => Some (Del k)
  | BDelCurH => match h with Some i => Some (DelCur (fst (fst i)) (snd (fst i)) (snd i)) | None => None end
  end.

Fixpoint resolve_all (h : option item) (l : list sbop) : option (list bop) :=
  match l with
  | [] => Some []
  | o :: t =>
      match resolve h o, resolve_all h t with
      | Some x, Some r => Some (x :: r)
      | _, _ => None
      end
  end.

(* the driver never issues a DelCurrent without a held iterator; the model marks that as a panic *)
Definition a_step (A : adapter) (s : a_state A) (h : option item) (o : sop) : a_state A * option item * obs :=
  match o with
  | SBatch l =>
      match resolve_all h l with
      | Some ops => let '(s', c, cf) := a_batch A s ops in (s', h, OBatch c cf)
      | None => (s, h, OBatch RPanic None)
      end
  | SGet k => let '(c, v) := a_get A s k in (s, h, OGet c v)
  | SDel k => let '(s', c) := a_del A s k in (s', h, ODel c)
  | SIter a b l => (s, h, OIter ROk (map item_kv (a_iter A s a b l)))
  | SHold a b l j =>
      let out := a_iter A s a b l in
      let seen := firstn (S j) out in
      if Nat.leb (S j) (length out)
      then (s, nth_error out j, OHold ROk (map item_kv seen) true)
      else (s, None, OHold ROk (map item_kv seen) false)
  | SDelCur =>
      match h with
      | Some i => let '(s', c, cf) := a_delcur A s i in (s', h, ODelCur c cf)
      | None => (s, h, ODelCur RPanic None)
      end
  | SHoldDrain a b l j bl =>
      (* the iterator's output is fixed when it is created; the batch commits on the engine meanwhile *)
      let out := a_iter A s a b l in
      match resolve_all h bl with
      | Some ops =>
          let '(s', c, cf) := a_batch A s ops in
          (s', h, OHoldDrain ROk (map item_kv (firstn (S j) out)) c cf (map item_kv (skipn (S j) out)))
      | None => (s, h, OHoldDrain RPanic [] RPanic None [])
      end
  end.

Fixpoint a_run (A : adapter) (s : a_state A) (h : option item) (ops : list sop) : a_state A * list obs :=
  match ops with
  | [] => (s, [])
  | o :: rest =>
      let '(s', h', ob) := a_step A s h o in
      let '(sf, obs) := a_run A s' h' rest in
      (sf, ob :: obs)
  end.

(* ---------- equality of observations ---------- *)

Definition rclass_eqb (a b : rclass) : bool :=
  match a, b with
  | ROk, ROk | RCond, RCond | RNotFound, RNotFound | ROther, ROther | RPanic, RPanic => true
  | _, _ => false
  end.

Definition kv_eqb (x y : bytes * bytes) : bool := beqb (fst x) (fst y) && beqb (snd x) (snd y).
Definition store_eqb (x y : store) : bool := list_eqb kv_eqb x y.

Definition conflict_eqb (x y : conflict) : bool :=
  Nat.eqb (fst (fst x)) (fst (fst y)) && beqb (snd (fst x)) (snd (fst y)) && opt_eqb beqb (snd x) (snd y).

Definition obs_eqb (x y : obs) : bool :=
  match x, y with
  | OBatch c cf, OBatch c' cf' => rclass_eqb c c' && opt_eqb conflict_eqb cf cf'
  | OGet c v, OGet c' v' => rclass_eqb c c' && beqb v v'
  | ODel c, ODel c' => rclass_eqb c c'
  | OIter c o, OIter c' o' => rclass_eqb c c' && store_eqb o o'
  | OHold c o h, OHold c' o' h' => rclass_eqb c c' && store_eqb o o' && Bool.eqb h h'
  | ODelCur c cf, ODelCur c' cf' => rclass_eqb c c' && opt_eqb conflict_eqb cf cf'
  | OHoldDrain c x bc bcf y, OHoldDrain c' x' bc' bcf' y' =>
      rclass_eqb c c' && store_eqb x x' && rclass_eqb bc bc' && opt_eqb conflict_eqb bcf bcf' && store_eqb y y'
  | _, _ => false
  end.

(* The adapter models idealise the engine as unbounded: on n distinct Puts followed by a CAS on a missing key every
   model answers "condition failed" and stores nothing; without the CAS it answers ok and stores all n
   (Proofs/C11Kinds.v: big_batch_model, big_batch_model_ok).  An engine may instead refuse a transaction for its size (Badger:
   ErrTxnTooBig): class other, and then nothing may be stored. *)
Definition big_check (failing : bool) (n : N) (c : rclass) (visible : N) : bool :=
  (if failing then rclass_eqb c RCond && (visible =? 0) else rclass_eqb c ROk && (visible =? n))
  || (rclass_eqb c ROther && (visible =? 0)).

(* ---------- two interleaved batches ---------- *)

Definition il_guard : bytes := [105; 108; 47; 103].     (* "il/g" *)
Definition il_other : bytes := [105; 108; 47; 111].     (* "il/o" *)
Definition il_v1 : bytes := [118; 49].
Definition il_v1b : bytes := [118; 49; 98].
Definition il_v2 : bytes := [118; 50].
Definition il_mine : bytes := [109].

Definition il_setup (variant : N) : list bop :=
  match variant with 0 | 1 => [Put il_guard il_v1 0] | _ => [] end.
Definition il_b1 (variant : N) : list bop :=
  match variant with
  | 0 => [CAS il_guard il_v1 il_v1 0; Put il_other [120] 0]
  | 1 => [CAS il_guard il_v1b il_v1 0; Put il_other [120] 0]
  | _ => [PutIfNotExist il_guard il_mine 0; Put il_other [120] 0]
  end.
Definition il_b2 : list bop := [Put il_guard il_v2 0].

Definition bop_key (o : bop) : bytes :=
  match o with PutIfNotExist k _ _ | CAS k _ _ _ | Put k _ _ | Del k | DelCur k _ _ => k end.
Definition bop_reads (o : bop) : bool :=
  match o with PutIfNotExist _ _ _ | CAS _ _ _ _ | DelCur _ _ _ => true | _ => false end.
Definition touches (keys : list bytes) (k : bytes) : bool := existsb (beqb k) keys.

Definition il_obs := (bool * rclass * bool * bool)%type.

Definition il_view (b2first : bool) (c1 : rclass) (final : store) : il_obs :=
  (b2first, c1, match get final il_other with Some _ => true | None => false end,
   match get final il_guard with Some v => beqb v il_v2 | None => false end).

(* Two batches, any operations, from any state: batch 1 is begun, batch 2 is begun and committed, batch 1 is committed.
   The result: did batch 2 commit before batch 1's Commit was called; the classes of batch 1 and batch 2; the state. *)

(* memkv: BeginBatchWrite takes the store mutex until Commit: batch 2 waits, i.e. runs after batch 1 *)
Definition tx2_memkv (s0 : store) (b1 b2 : list bop) : bool * rclass * rclass * store :=
  let '(s1, c1, _) := mem_batch_run s0 b1 in
  let '(s2, c2, _) := mem_batch_run s1 b2 in
  (false, c1, c2, s2).

(* the keys a TiKV batch writes when it is run on s: the keys of its transaction's buffer *)
Definition t_written (s : store) (ops : list bop) : list bytes :=
  match t_run s [] 1 ops with inl p => map fst p | inr _ => [] end.

(* TiKV: optimistic transaction with the snapshot of BeginBatchWrite; the closures read that snapshot; the commit is
   refused (write conflict -> ErrCASFailed, batch.go:127) when a key of its own WRITE set was committed meanwhile *)
Definition tx2_tikv (s0 : store) (b1 b2 : list bop) : bool * rclass * rclass * store :=
  let '(s1, c2, _) := t_batch s0 b2 in
  match t_run s0 [] 1 b1 with
  | inr (c, _) => (true, c, c2, s1)
  | inl p =>
      if existsb (fun e => touches (t_written s0 b2) (fst e)) p
      then (true, RCond, c2, s1)
      else (true, ROk, c2, t_apply s1 p)
  end.

(* the keys a Badger batch reads from the store (not from its own pending writes), and the keys it writes *)
Fixpoint b_readset (s : bstate) (p : pending) (idx : nat) (ops : list bop) : list bytes :=
  match ops with
  | [] => []
  | o :: rest =>
      let r := if bop_reads o then match get p (bop_key o) with None => [bop_key o] | Some _ => [] end else [] in
      match b_closure s p idx o with
      | inl p' => r ++ b_readset s p' (S idx) rest
      | inr _ => r
      end
  end.

Definition b_written (s : bstate) (ops : list bop) : list bytes :=
  match b_run s [] 0 ops with inl p => map fst p | inr _ => [] end.

(* Badger: serialisable snapshot isolation: the commit is refused (badger.ErrConflict, which batch.Commit turns into
   ErrCASFailed) when a key the transaction has READ was committed meanwhile *)
Definition tx2_badger (s0 : bstate) (b1 b2 : list bop) : bool * rclass * rclass * bstate :=
  let '(s1, c2, _) := b_batch s0 b2 in
  match b_run s0 [] 0 b1 with
  | inr (c, _) => (true, c, c2, s1)
  | inl p =>
      if existsb (touches (b_written s0 b2)) (b_readset s0 [] 0 b1)
      then (true, RCond, c2, s1)
      else (true, ROk, c2, b_commit s1 p)
  end.

(* the three guard shapes the driver runs *)
Definition il_memkv (variant : N) : il_obs :=
  let '(s0, _, _) := mem_batch_run [] (il_setup variant) in
  let '(b2first, c1, _, sf) := tx2_memkv s0 (il_b1 variant) il_b2 in il_view b2first c1 sf.

Definition il_tikv (variant : N) : il_obs :=
  let '(s0, _, _) := t_batch [] (il_setup variant) in
  let '(b2first, c1, _, sf) := tx2_tikv s0 (il_b1 variant) il_b2 in il_view b2first c1 sf.

Definition il_badger (variant : N) : il_obs :=
  let '(s0, _, _) := b_batch (mk_bstate [] 0) (il_setup variant) in
  let '(b2first, c1, _, sf) := tx2_badger s0 (il_b1 variant) il_b2 in il_view b2first c1 (b_store sf).

Definition il_expected (e : eng) (variant : N) : il_obs :=
  match e with
  | EMem | EWrapMem => il_memkv variant
  | ETiKV | EWrapTiKV => il_tikv variant
  | EBadger | EWrapBadger => il_badger variant
  end.

Definition il_obs_eqb (x y : il_obs) : bool :=
  let '(a, c, o, g) := x in let '(a', c', o', g') := y in
  Bool.eqb a a' && rclass_eqb c c' && Bool.eqb o o' && Bool.eqb g g'.

(* the property on the observation: the outcome is that of some serial order of the two batches.  If batch 2 was
   acknowledged first, batch 1's guard is false when it commits: it must report a failed condition and leave nothing
   behind. *)
Definition il_oracle (e : eng) (x : il_obs) : option N :=
  let '(b2first, c1, other, guard2) := x in
  if b2first then
    if negb other && guard2 then
      match c1 with
      | RCond => None
      | _ => Some 0
      end
    else Some 0
  else ok_if (rclass_eqb c1 ROk && other && guard2).

(* ---------- validity, evaluated ---------- *)

(* the static preconditions of the two open deviations: TiKV is given no empty value (finding C11-F1); Badger no
   DelCurrent(held) after a write in the same batch (finding C11-F2).  Sequences that violate them are the findings'
   witnesses and explorations; every other case is covered by C11_oracle_sound. *)
Definition sbop_nonemptyb (o : sbop) : bool :=
  match o with
  | BPutNX _ [] _ | BPut _ [] _ | BCAS _ [] _ _ => false
  | _ => true
  end.

Fixpoint no_delcur_after_writeb (l : list sbop) (written : bool) : bool :=
  match l with
  | [] => true
  | BDelCurH :: rest => negb written && no_delcur_after_writeb rest written
  | BDel _ :: rest => no_delcur_after_writeb rest written
  | _ :: rest => no_delcur_after_writeb rest true
  end.

Definition sbatch_okb (e : eng) (l : list sbop) : bool :=
  match e with
  | EMem | EWrapMem => true
  | ETiKV | EWrapTiKV => forallb sbop_nonemptyb l
  | EBadger | EWrapBadger => no_delcur_after_writeb l false
  end.

Definition sop_okb (e : eng) (o : sop) : bool :=
  match o with
  | SBatch l | SHoldDrain _ _ _ _ l => sbatch_okb e l
  | _ => true
  end.

Definition not_panicb (ob : obs) : bool :=
  match ob with OBatch RPanic _ | ODelCur RPanic _ | OHoldDrain RPanic _ _ _ _ => false | _ => true end.

Definition c11_cleanb (c : c11_case) : bool :=
  match c with
  | mk_c11 e steps _ => forallb (sop_okb e) (map fst steps) && forallb not_panicb (map snd steps)
  | _ => true
  end.

Definition c11_check (c : c11_case) : bool :=
  match c with
  | mk_c11 e steps final =>
      let A := adapter_of e in
      let '(sf, obs) := a_run A (a_init A) None (map fst steps) in
      list_eqb obs_eqb obs (map snd steps) && store_eqb (a_dump A sf) final
  | KBigBatch _ n _ failing c visible => big_check failing n c visible
  | KWrapFault _ injected observed intact => rclass_eqb observed injected && intact
  | KInterleave e variant b2first c1 other guard2 => il_obs_eqb (il_expected e variant) (b2first, c1, other, guard2)
  end.

(* ---------- the property: the observation against the contract, under the C11 projection ---------- *)

Fixpoint is_prefix (x y : store) : bool :=
  match x, y with
  | [], _ => true
  | a :: x', b :: y' => kv_eqb a b && is_prefix x' y'
  | _ :: _, [] => false
  end.

(* how many elements an iterator has to deliver at least *)
Definition min_count (limit : N) (all : nat) : nat :=
  if limit =? 0 then all else Nat.min (N.to_nat limit) all.

Definition bop_is_putnx (o : bop) : option bytes := match o with PutIfNotExist k _ _ => Some k | _ => None end.

(* batch answer against the contract's verdict.  A failed condition must be reported as such; the payload is only
   constrained for put-if-absent (the only place a caller reads it, creator/naive.go:62): the key and the value
   actually stored; and Idx = 0 must really mean the first operation. *)
Definition batch_proj_ok (ops : list bop) (r : bres) (c : rclass) (cf : option conflict) : bool :=
  match r with
  | Applied _ => rclass_eqb c ROk && match cf with None => true | Some _ => false end
  | CondFailed i actual =>
      rclass_eqb c RCond &&
      match cf with
      | None => true
      | Some (i', k', v') =>
          (if Nat.eqb i' 0 then Nat.eqb i 0 else true) &&
          match nth_error ops i with
          | Some o => match bop_is_putnx o with
                      | Some k => beqb k k' && opt_eqb beqb v' (canon_opt actual)
                      | None => true
                      end
          | None => false
          end
      end
  end.

(* known deviations of the unchanged tree (known_findings.d/C11.json); code 0 = unlisted *)
Definition has_empty_write (ops : list bop) : bool :=
  existsb (fun o => match o with
                    | PutIfNotExist _ [] _ | CAS _ [] _ _ | Put _ [] _ => true
                    | _ => false end) ops.

Fixpoint written_before_delcur (ops : list bop) (seen : list bytes) : bool :=
  match ops with
  | [] => false
  | o :: rest =>
      match o with
      | PutIfNotExist k _ _ | CAS k _ _ _ | Put k _ _ => written_before_delcur rest (k :: seen)
      | Del _ => written_before_delcur rest seen
      | DelCur k _ _ => existsb (beqb k) seen || written_before_delcur rest seen
      end
  end.

Definition batch_finding (e : eng) (ops : list bop) (c : rclass) : N :=
  match e with
  | ETiKV | EWrapTiKV => if has_empty_write ops && rclass_eqb c ROther then 1 else 0
  | EBadger | EWrapBadger => if written_before_delcur ops [] && rclass_eqb c ROk then 2 else 0
  | EMem | EWrapMem => 0
  end.

(* one step: contract state, held record -> new contract state and held record, or a verdict *)
Definition o_step_gen (m : dcmode) (fnd : list bop -> rclass -> N) (cs : cstore) (h : option item) (o : sop) (ob : obs)
  : (cstore * option item) + N :=
  let batch ops c cf :=
      let r := batch_eval m cs ops in
      if batch_proj_ok ops r c cf
      then inl (match r with Applied cs' => cs' | CondFailed _ _ => cs end, h)
      else inr (fnd ops c) in
  match o, ob with
  | SBatch l, OBatch c cf =>
      match resolve_all h l with
      | Some ops => batch ops c cf
      | None => inr 0
      end
  | SGet k, OGet c v =>
      match get (st cs) k with
      | Some x => if rclass_eqb c ROk && beqb v x then inl (cs, h) else inr 0
      | None => if rclass_eqb c RNotFound then inl (cs, h) else inr 0
      end
  | SDel k, ODel c => batch [Del k] c None
  | SIter a b l, OIter c out =>
      let all := citems m cs a b in
      if rclass_eqb c ROk && is_prefix out (map item_kv all) && Nat.leb (min_count l (length all)) (length out)
      then inl (cs, h) else inr 0
  | SHold a b l j, OHold c out held =>
      let all := citems m cs a b in
      if rclass_eqb c ROk && is_prefix out (map item_kv all) &&
         (if held then Nat.eqb (length out) (S j) else Nat.leb (min_count l (length all)) (length out) && Nat.leb (length out) j)
      then inl (cs, if held then nth_error all j else None) else inr 0
  | SDelCur, ODelCur c cf =>
      match h with
      | Some i => batch [DelCur (fst (fst i)) (snd (fst i)) (snd i)] c cf
      | None => inr 0
      end
  | SHoldDrain a b l j bl, OHoldDrain c before bc bcf after =>
      (* everything the iterator delivered, before and after the batch, is judged against the contract state at the
         moment the iterator was created; the batch is judged as any other batch *)
      let all := citems m cs a b in
      match resolve_all h bl with
      | Some ops =>
          if rclass_eqb c ROk && is_prefix (before ++ after) (map item_kv all) &&
             Nat.leb (min_count l (length all)) (length (before ++ after)) && Nat.leb (length before) (S j)
          then batch ops bc bcf else inr 0
      | None => inr 0
      end
  | _, _ => inr 0
  end.

Fixpoint o_run_gen (m : dcmode) (fnd : list bop -> rclass -> N) (cs : cstore) (h : option item) (steps : list (sop * obs))
  : cstore + N :=
  match steps with
  | [] => inl cs
  | (o, ob) :: rest =>
      match o_step_gen m fnd cs h o ob with
      | inl (cs', h') => o_run_gen m fnd cs' h' rest
      | inr code => inr code
      end
  end.

Definition o_run (e : eng) := o_run_gen (mode_of e) (batch_finding e).

(* all or nothing, whatever the size: an error of any class means that none of the batch is stored; success means
   all of it is; and a batch whose condition fails may not succeed *)
Definition big_oracle (failing : bool) (n : N) (c : rclass) (visible : N) : option N :=
  match c with
  | ROk => ok_if (negb failing && (visible =? n))
  | RPanic => Some 0
  | _ => ok_if (visible =? 0)
  end.

Definition c11_oracle (c : c11_case) : option N :=
  match c with
  | mk_c11 e steps final =>
      match o_run e (cs_of []) None steps with
      | inl cs => ok_if (store_eqb (st cs) final)
      | inr code => Some code
      end
  | KBigBatch _ n _ failing c visible => big_oracle failing n c visible
  | KWrapFault _ injected observed intact => ok_if (rclass_eqb observed injected && intact)
  | KInterleave e _ b2first c1 other guard2 => il_oracle e (b2first, c1, other, guard2)
  end.
