(* C17: the hypotheses of the oracle-soundness theorems as a boolean function, evaluated on every generated case together
   with the correspondence check. No proofs here. *)
From KB Require Export Base.Cases Model.Coder Model.CompactSys Model.C07Cases Model.C07Valid Model.C17Cases.
Local Open Scope N_scope.

(* wall times non-decreasing, every write with its own larger revision (Proofs/CompactTtl.v: mono) *)
Fixpoint monob (now n : N) (evs : list tev) : bool :=
  match evs with
  | [] => true
  | TDump t _ :: r => (now <=? t) && monob t n r
  | TCreate t _ _ rv :: r | TUpdate t _ _ rv :: r | TDelete t _ rv :: r => (now <=? t) && (n <=? rv) && monob t (rv + 1) r
  end.

(* ---------- scanner histories ---------- *)

(* no writer interleaved with the pass, no engine fault: nothing listed for its engine deletes *)
Definition pass_plain (st : c17_step) : bool :=
  match st with SStore _ => true | SCompact _ _ _ _ oc _ => is_nil oc | SCompactReq _ _ _ _ _ oc _ => is_nil oc end.

(* records in distinct slots: strictly sorted, non-empty keys, version revisions > 0 *)
Definition store_okb (V : store) : bool :=
  sortedb V && forallb (fun x => negb (is_nil (rkey x))) V && forallb (fun x => match x with RVer _ r _ => 0 <? r | _ => true end) V.

(* along the observed dumps: every pass starts from a store with records in distinct slots that satisfies the relaxed
   well-formedness (Proofs/CompactScan.v: scan_valid) *)
Fixpoint scan_validb (V : store) (steps : list c17_step) : bool :=
  match steps with
  | [] => true
  | SStore d :: t => scan_validb (apply_diff V d) t
  | SCompact _ _ _ _ oc d :: t => is_nil oc && store_okb V && wfdb V && scan_validb (apply_diff V d) t
  | SCompactReq _ _ _ _ _ oc d :: t => is_nil oc && store_okb V && wfdb V && scan_validb (apply_diff V d) t
  end.

Fixpoint nodup_keysb (l : list bytes) : bool :=
  match l with [] => true | k :: t => negb (existsb (beqb k) t) && nodup_keysb t end.

Definition scan_final_validb (Vf : store) (fin : list (bytes * option (N * bytes) * option wres * wres)) : bool :=
  wfdb Vf && freshb Vf 1000000 && (1000000 + 2 * N.of_nat (length fin) <=? max_rev)
  && nodup_keysb (map (fun e => fst (fst (fst e))) fin)
  && forallb (fun e => match snd (fst (fst e)) with Some (r, _) => 0 <? r | None => true end) fin.

(* the case kinds covered by a soundness theorem: all but the scanner histories with a writer inside a pass (the
   update-in-the-window scripts; props/C17.json, gaps) *)
Definition c17_claimed (c : c17_case) : bool :=
  match c with KScan _ _ _ _ steps _ _ => forallb pass_plain steps | _ => true end.

Definition c17_validb (c : c17_case) : bool :=
  match c with
  | KEngineTtl e prefix ttl_ms evs fin =>
      monob 0 0 evs
      && match ttl_run e prefix ttl_ms (mkTS [] []) evs with
         | Some V => wfdb V && freshb V 1000000 && (1000000 + N.of_nat (length fin) <=? max_rev)
         | None => true
         end
  | KScan prefix ttl sup pre steps fin extra =>
      if forallb pass_plain steps
      then scan_validb pre steps && scan_final_validb (store_after pre steps) fin
      else true
  | _ => true
  end.

(* what the shards evaluate: the case lies within the theorems' hypotheses and the model reproduces it *)
Definition c17_check_v (c : c17_case) : bool := c17_validb c && c17_check c.
