(* C07: the hypotheses of the oracle-soundness theorem (Proofs/CompactOracle.v: c07_valid) as a boolean function,
   evaluated on every generated case together with the correspondence check. No proofs here. *)
From KB Require Export Base.Cases Model.Coder Model.CompactSys Model.C07Cases.
Local Open Scope N_scope.

(* ---------- the relaxed well-formedness of a dump, decided ---------- *)

Definition idx_uniqueb (V : store) : bool :=
  forallb (fun x => forallb (fun y =>
    match x, y with
    | RIdx k r d, RIdx k' r' d' => implb (beqb k k') ((r =? r') && Bool.eqb d d')
    | _, _ => true
    end) V) V.

Definition uniq_verb (V : store) : bool :=
  forallb (fun x => forallb (fun y =>
    match x, y with
    | RVer k r v, RVer k' r' v' => implb (beqb k k' && (r =? r')) (beqb v v')
    | _, _ => true
    end) V) V.

Definition top_verb (V : store) (k : bytes) (r : N) (v : bytes) : bool :=
  memb (RVer k r v) V
  && forallb (fun y => match y with RVer k' r' _ => implb (beqb k k') (r' <=? r) | _ => true end) V.

Definition no_verb (V : store) (k : bytes) : bool :=
  forallb (fun y => match y with RVer k' _ _ => negb (beqb k k') | _ => true end) V.

Definition no_idxb (V : store) (k : bytes) : bool :=
  forallb (fun y => match y with RIdx k' _ _ => negb (beqb k k') | _ => true end) V.

Definition kwfb (V : store) (k : bytes) : bool :=
  forallb (fun x => match x with
                    | RIdx k' r false =>
                        implb (beqb k k')
                          (existsb (fun y => match y with
                                             | RVer k2 r2 v => beqb k k2 && (r2 =? r) && negb (is_tomb v) && top_verb V k r v
                                             | _ => false
                                             end) V)
                    | RIdx k' r true => implb (beqb k k') (no_verb V k || top_verb V k r tombstone)
                    | _ => true
                    end) V
  && implb (no_idxb V k)
       (no_verb V k
        || existsb (fun y => match y with RVer k2 r2 v => beqb k k2 && is_tomb v && top_verb V k r2 tombstone | _ => false end) V).

(* one test per key (dedup_keys drops a key equal to its predecessor's: all of them on a sorted dump) *)
Definition wfdb (V : store) : bool := idx_uniqueb V && uniq_verb V && forallb (kwfb V) (dedup_keys None V).

Definition freshb (V : store) (n : N) : bool :=
  (n <=? max_rev) && forallb (fun x => match x with RVer _ r _ | RIdx _ r _ => r <? n end) V.

(* ---------- the hypotheses on a case ---------- *)

Definition rd_okb (R cur : N) (rd : c07_read) : bool :=
  match rd with
  | RdGet _ rev => (rev =? 0) || (R <=? rev)
  | RdList _ _ rev _ => R <=? eff_rev cur rev
  end.

Definition op_okb (n : N) (op : c07_wop) : bool :=
  match op with
  | WCreate _ v => negb (is_tomb v)
  | WUpdate _ v prev => negb (is_tomb v) && (prev <=? n)
  | WDelete _ e => e <=? n
  end.

(* no writers interleaved with the pass *)
Definition seqb (v : c07_variant) : bool := forallb (fun q => is_nil (fst q)) (v7_oc v).

Definition variant_validb (V : store) (reads : list c07_read) (v : c07_variant) : bool :=
  let R := clamp (v7_cur v) 0 (v7_req v) in
  (R <=? max_rev)
  && forallb (rd_okb R (v7_cur2 v)) reads
  && freshb V (v7_cur2 v + 1)
  && (v7_cur2 v + 1 + N.of_nat (length (v7_round v)) <=? max_rev)
  && forallb (fun q => op_okb (v7_cur2 v + 1) (fst q)) (v7_round v).

(* ---------- variants with interleaved writers ---------- *)

(* the writers' records are fresh: non-empty keys, versions at revisions > 0 in a (key, revision) slot nothing occupies yet
   (Proofs/CompactWriters.v: fresh_adds) *)
Fixpoint fresh_addsb (A : list rec) (S : store) : bool :=
  match A with
  | [] => true
  | x :: t =>
      negb (is_nil (rkey x))
      && match x with
         | RVer k r _ => (0 <? r) && forallb (fun y => match y with RVer k' r' _ => negb (beqb k k' && (r =? r')) | _ => true end) S
         | RIdx _ _ _ => true
         end
      && fresh_addsb t (apply_env [x] S)
  end.

Definition variant_validb_w (V : store) (reads : list c07_read) (v : c07_variant) : bool :=
  let R := clamp (v7_cur v) 0 (v7_req v) in
  let adds := all_adds (v7_oc v) in
  let post := apply_diff V (v7_post v) in
  (v7_iterfail v =? 0)
  && fresh_addsb adds V
  && uniq_verb (V ++ adds)
  && forallb (fun x => match x with RVer _ r _ => R <? r | _ => true end) adds
  && (R <=? max_rev)
  && forallb (rd_okb R (v7_cur2 v)) reads
  && wfdb post
  && freshb post (v7_cur2 v + 1)
  && (v7_cur2 v + 1 + N.of_nat (length (v7_round v)) <=? max_rev)
  && forallb (fun q => op_okb (v7_cur2 v + 1) (fst q)) (v7_round v).

(* the variants the soundness theorem speaks about: those without interleaved writers (fault / die / compare-failure
   placements, a failed iterator step, several partitions) *)
Definition c07_seq_part (c : c07_case) : c07_case :=
  mkC7 (c7_prefix c) (c7_skipped c) (c7_borders c) (c7_pre c) (c7_reads c) (c7_before c) (filter seqb (c7_variants c)).

Definition c07_validb (c : c07_case) : bool :=
  alphab (c7_prefix c)
  && forallb alphab (c7_skipped c)
  && forallb (fun x => alphab (rkey x) && negb (is_nil (rkey x))) (c7_pre c)
  && forallb (fun x => match x with RVer _ r _ => 0 <? r | _ => true end) (c7_pre c)
  && wfdb (c7_pre c)
  && forallb (fun v => implb (seqb v) (variant_validb (c7_pre c) (c7_reads c) v)) (c7_variants c).

(* every variant: without writers, or with *)
Definition c07_validb_full (c : c07_case) : bool :=
  alphab (c7_prefix c)
  && forallb alphab (c7_skipped c)
  && forallb (fun x => alphab (rkey x) && negb (is_nil (rkey x))) (c7_pre c)
  && forallb (fun x => match x with RVer _ r _ => 0 <? r | _ => true end) (c7_pre c)
  && wfdb (c7_pre c)
  && forallb (fun v => if seqb v then variant_validb (c7_pre c) (c7_reads c) v
                       else variant_validb_w (c7_pre c) (c7_reads c) v) (c7_variants c).

(* what the shards evaluate: the case lies within the theorem's hypotheses and the model reproduces it *)
Definition c07_check_v (c : c07_case) : bool := c07_validb_full c && c07_check c.
