(* Correspondence cases for C14: one case = an initial stored record and the sequence of lock
   operations in the order the scheduler executed them on real resourcelock objects, each with the
   environment outcome (inputs) and what was observed (error class, whether the timestamp oracle
   was read, the stored record afterwards, Describe() of the acting candidate afterwards). *)
From KB Require Export Base.Cases Model.Election.
Local Open Scope N_scope.

Record c14_step := mkStep {
  s_label   : label;
  s_res     : res;             (* observed error class *)
  s_tsoread : bool;            (* observed: GetTimestampOracle was called during the operation *)
  s_stale   : bool;            (* schedule: other candidates were stepped between this operation's BeginBatchWrite and its Commit *)
  s_got     : option bytes;    (* observed, Get only: the bytes the engine returned to this candidate's own Get *)
  s_stored  : option bytes;    (* observed: engine content of <prefix>/election right after the step *)
  s_desc    : bytes * N        (* observed: Describe() = "<holder>,<tso>" of the acting candidate *)
}.
Record c14_case := mkCase { k_init : option lrec; k_steps : list c14_step }.

(* An engine whose batch reads a snapshot taken at BeginBatchWrite (Badger) answers a commit that
   lost a race with ITS OWN conflict error instead of a failed condition: where the model says
   "condition failed" for an operation that was overtaken between begin and commit, a plain error
   is accepted as well. Nothing is applied in either case. *)
Definition res_ok (stale : bool) (model observed : res) : bool :=
  res_eqb model observed || (stale && res_eqb model RConflict && res_eqb observed RErr).
Definition res_is_ok (r : res) : bool := match r with ROk => true | _ => false end.

Definition desc_eqb (a b : bytes * N) : bool := beqb (fst a) (fst b) && (snd a =? snd b).

Fixpoint c14_run (s : sys) (xs : list c14_step) : bool :=
  match xs with
  | [] => true
  | x :: tl =>
      let o := run_op s (s_label x) in
      let s' := step s (s_label x) in
      res_ok (s_stale x) (o_res o) (s_res x)
      && Bool.eqb (o_tsoread o) (s_tsoread x)
      && opt_eqb beqb (match s_label x with LGet _ _ _ => o_observed o | _ => None end) (s_got x)
      && opt_eqb beqb (rec_bytes (store s')) (s_stored x)
      && desc_eqb (describe (cands s' (lab_cid (s_label x)))) (s_desc x)
      && c14_run s' tl
  end.

Definition c14_check (c : c14_case) : bool := c14_run (init (k_init c)) (k_steps c).

(* ---- the property, on the implementation's trace alone ----
   The oracle tracks only what the trace shows: the stored bytes after each step and, per candidate,
   the bytes it last obtained from ITS OWN Get (the harness's record of what the engine returned to
   that interface-level Get call — engine reads made inside any other operation do not count) or
   wrote with its own committed Create. It never calls the model. *)
Record ostate := mkO { o_st : option bytes; o_obs : cid -> option bytes }.

Definition obeq := opt_eqb beqb.

(* an applied write may come back as an error only if the environment made the commit's outcome
   unknown or the timestamp read after the commit failed *)
Definition may_hide (e : cenv) (t : tenv) : bool :=
  match e, t with
  | CUnknown, _ => true
  | COk, TErr => true
  | _, _ => false
  end.
Definition refreshes (e : cenv) : bool := match e with COk => true | _ => false end.

Definition orc_step (o : ostate) (x : c14_step) : option ostate :=
  let before := o_st o in
  let after := s_stored x in
  match s_label x with
  | LGet c e _ =>
      (* a read never changes the record *)
      if obeq after before
      then Some (mkO after (match s_got x with
                            | Some b => upd (o_obs o) c (Some b)
                            | None => o_obs o
                            end))
      else None
  | LInfo c =>
      (* an information lookup neither writes the record nor changes what the candidate holds *)
      if obeq after before then Some (mkO after (o_obs o)) else None
  | LCreate c _ b e t =>
      if res_is_ok (s_res x) then
          (* a create succeeds only on an absent record, and then the record is what it wrote *)
          match before with
          | None => if obeq after (Some b) then Some (mkO after (upd (o_obs o) c (Some b))) else None
          | Some _ => None
          end
      else
          if obeq after before then Some (mkO after (o_obs o))
          else match before with
               | None => if may_hide e t && obeq after (Some b)
                         then Some (mkO after (if refreshes e then upd (o_obs o) c (Some b) else o_obs o))
                         else None
               | Some _ => None      (* a failed create changed an existing record *)
               end
  | LUpdate c _ b e t =>
      let justified :=
        match before, o_obs o c with
        | Some x, Some y => beqb x y && obeq after (Some b)
        | _, _ => false
        end in
      if res_is_ok (s_res x) then
          (* an update succeeds only if the record was still exactly what the candidate last obtained *)
          if justified then Some (mkO after (o_obs o)) else None
      else
          if obeq after before then Some (mkO after (o_obs o))
          else if may_hide e t && justified then Some (mkO after (o_obs o))
          else None                  (* a failed update changed the record *)
  end.

Fixpoint orc_run (o : ostate) (xs : list c14_step) : bool :=
  match xs with
  | [] => true
  | x :: tl => match orc_step o x with Some o' => orc_run o' tl | None => false end
  end.

Definition c14_oracle (c : c14_case) : option N :=
  ok_if (orc_run (mkO (rec_bytes (k_init c)) (fun _ => None)) (k_steps c)).
