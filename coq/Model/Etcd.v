(* C16 — (i) a reference interpreter of etcd v3 KV semantics (mvcc store, generic Txn, Range, watch
   event shapes) and (ii) the model of KubeBrain's etcd front-end: the shape recognisers of
   pkg/server/etcd/kv.go:160-221, the response shaping of pkg/server/etcd/backendshim.go, over a
   sequential model of pkg/backend/txn.go and range.go (per key: index record + version list;
   one revision dealt per attempt).  Executable definitions only. *)
From KB Require Export Base.Cases Model.Coder.
Local Open Scope Z_scope.

(* ------------------------------------------------------------------ structural requests *)

Inductive ctarget := TVersion | TCreate | TMod | TValue | TLease.
Inductive cresult := REqual | RGreater | RLess | RNotEqual.
(* the protobuf oneof target_union is independent of the target field *)
Inductive cunion := UNone | UVersion (z : Z) | UCreate (z : Z) | UMod (z : Z) | UValue (b : bytes) | ULease (z : Z).

Record compare := mkCmp { c_result : cresult; c_target : ctarget; c_key : bytes; c_union : cunion; c_end : bytes }.
Record range_req := mkRange { r_key : bytes; r_end : bytes; r_limit : Z; r_rev : Z; r_count_only : bool; r_keys_only : bool }.
Record put_req := mkPut { p_key : bytes; p_val : bytes; p_lease : Z; p_prev_kv : bool; p_ign_val : bool; p_ign_lease : bool }.
Record del_req := mkDel { d_key : bytes; d_end : bytes; d_prev_kv : bool }.

Inductive reqop :=
| OpRange (r : range_req)
| OpPut (p : put_req)
| OpDel (d : del_req)
| OpTxn (cs : list compare) (s f : list reqop).

Record txn_req := mkTxn { t_cmp : list compare; t_succ : list reqop; t_fail : list reqop }.

(* ------------------------------------------------------------------ responses *)

Record kv := mkKv { k_key : bytes; k_val : bytes; k_create : Z; k_mod : Z; k_ver : Z; k_lease : Z }.

Inductive respop :=
| RsRange (h : Z) (kvs : list kv) (count : Z) (more : bool)
| RsPut (h : Z) (prev : option kv)
| RsDel (h : Z) (deleted : Z) (prevs : list kv)
| RsTxnR (h : Z) (succ : bool) (rs : list respop)
| RsOther.

Inductive txn_resp := TErr | TOk (h : Z) (succ : bool) (rs : list respop).
Inductive range_resp := RErr | ROk (h : Z) (kvs : list kv) (count : Z) (more : bool).
Inductive wevent := WEv (is_del : bool) (k : kv) (prev : option kv).

Definition empty_kv : kv := mkKv [] [] 0 0 0 0.

(* ------------------------------------------------------------------ generic helpers *)

Fixpoint takeZ {A} (l : list A) (n : Z) : list A :=
  match l with
  | [] => []
  | x :: l' => if 0 <? n then x :: takeZ l' (n - 1) else []
  end.

Definition lenZ {A} (l : list A) : Z := Z.of_nat (length l).

(* etcd key intervals: empty end = the single key; end = "\0" = every key >= key; else [key, end) *)
Definition in_range (key rend k : bytes) : bool :=
  match rend with
  | [] => beqb k key
  | [0%N] => bleb key k
  | _ => bleb key k && bltb k rend
  end.

(* ================================================================== (i) the etcd interpreter *)

Definition estore := list kv.     (* strictly sorted by key *)

Fixpoint e_find (k : bytes) (s : estore) : option kv :=
  match s with
  | [] => None
  | x :: s' => if beqb (k_key x) k then Some x else e_find k s'
  end.

Fixpoint e_set (n : kv) (s : estore) : estore :=
  match s with
  | [] => [n]
  | x :: s' =>
      match bcmp (k_key n) (k_key x) with
      | Lt => n :: x :: s'
      | Eq => n :: s'
      | Gt => x :: e_set n s'
      end
  end.

Definition e_remove_range (key rend : bytes) (s : estore) : estore :=
  filter (fun x => negb (in_range key rend (k_key x))) s.

Definition e_range (s : estore) (key rend : bytes) : list kv :=
  filter (fun x => in_range key rend (k_key x)) s.

(* The interpreter is parametric in the revision a writing transaction receives ([nr], required to
   be greater than the current one).  etcd itself takes nr = rev + 1; its behaviour depends on
   revisions only through comparisons, so any strictly increasing choice is etcd up to a monotone
   renaming (Proofs/EtcdRename.v). *)
Record estate := mkE {
  e_rev : Z;                      (* revision of the last write *)
  e_now : Z;                      (* logical clock: the largest revision handed out so far (>= e_rev); revisions
                                     in (e_rev, e_now] name the same store as e_rev — under the renaming they are
                                     etcd's current revision *)
  e_cur : estore;
  e_hist : list (Z * estore);     (* newest first: the store as of each writing revision *)
  e_events : list wevent          (* oldest first *)
}.

Definition e_init (base : Z) : estate := mkE base base [] [] [].
Definition e_tick (s : estate) (r : Z) : estate := mkE (e_rev s) (Z.max (e_now s) r) (e_cur s) (e_hist s) (e_events s).

Definition union_mod (u : cunion) : Z := match u with UMod z => z | _ => 0 end.
Definition union_create (u : cunion) : Z := match u with UCreate z => z | _ => 0 end.
Definition union_version (u : cunion) : Z := match u with UVersion z => z | _ => 0 end.
Definition union_lease (u : cunion) : Z := match u with ULease z => z | _ => 0 end.
Definition union_value (u : cunion) : bytes := match u with UValue b => b | _ => [] end.

(* etcd server/etcdserver/apply.go compareKV *)
Definition compare_kv (c : compare) (x : kv) : bool :=
  let r := match c_target c with
           | TValue => bcmp (k_val x) (union_value (c_union c))
           | TCreate => Z.compare (k_create x) (union_create (c_union c))
           | TMod => Z.compare (k_mod x) (union_mod (c_union c))
           | TVersion => Z.compare (k_ver x) (union_version (c_union c))
           | TLease => Z.compare (k_lease x) (union_lease (c_union c))
           end in
  match c_result c, r with
  | REqual, Eq => true
  | RNotEqual, Eq => false
  | RNotEqual, _ => true
  | RGreater, Gt => true
  | RLess, Lt => true
  | _, _ => false
  end.

(* applyCompare: over the keys of [key, range_end); a missing key compares as the zero kv,
   except for VALUE, which fails *)
Definition eval_cmp (s : estore) (c : compare) : bool :=
  match e_range s (c_key c) (c_end c) with
  | [] => match c_target c with TValue => false | _ => compare_kv c empty_kv end
  | kvs => forallb (compare_kv c) kvs
  end.

Definition eval_cmps (s : estore) (cs : list compare) : bool := forallb (eval_cmp s) cs.

Fixpoint hist_at (h : list (Z * estore)) (rev : Z) : estore :=
  match h with
  | [] => []
  | (r, s) :: h' => if r <=? rev then s else hist_at h' rev
  end.

(* the store a range at [rev] reads: <= 0 = current ([cur]: inside a transaction, its working
   store); above the clock = error (ErrFutureRev); otherwise the store as of that revision *)
Definition store_at (s : estate) (cur : estore) (rev : Z) : option estore :=
  if rev <=? 0 then Some cur
  else if e_now s <? rev then None
  else if e_rev s <=? rev then Some (e_cur s)
  else Some (hist_at (e_hist s) rev).

Definition clear_val (x : kv) : kv := mkKv (k_key x) [] (k_create x) (k_mod x) (k_ver x) (k_lease x).

Definition do_range (st : estore) (r : range_req) (h : Z) : respop :=
  let all := e_range st (r_key r) (r_end r) in
  let total := lenZ all in
  let lim := r_limit r in
  let kvs := if r_count_only r then [] else if 0 <? lim then takeZ all lim else all in
  let kvs := if r_keys_only r then map clear_val kvs else kvs in
  let more := negb (r_count_only r) && (0 <? lim) && (lim <? total) in
  RsRange h kvs total more.

(* working state of a transaction being applied *)
Record wstate := mkW { w_store : estore; w_wrote : bool; w_events : list wevent }.

Definition apply_put (nr : Z) (w : wstate) (p : put_req) : option (wstate * respop) :=
  let old := e_find (p_key p) (w_store w) in
  match old with
  | None =>
      if p_ign_val p || p_ign_lease p then None    (* ErrKeyNotFound *)
      else
        let n := mkKv (p_key p) (p_val p) nr nr 1 (p_lease p) in
        Some (mkW (e_set n (w_store w)) true (w_events w ++ [WEv false n None]),
              RsPut nr None)
  | Some o =>
      let n := mkKv (p_key p) (if p_ign_val p then k_val o else p_val p) (k_create o) nr (k_ver o + 1)
                    (if p_ign_lease p then k_lease o else p_lease p) in
      Some (mkW (e_set n (w_store w)) true (w_events w ++ [WEv false n (Some o)]),
            RsPut nr (if p_prev_kv p then Some o else None))
  end.

Definition apply_del (nr : Z) (w : wstate) (d : del_req) : wstate * respop :=
  let olds := e_range (w_store w) (d_key d) (d_end d) in
  match olds with
  | [] => (w, RsDel nr 0 [])
  | _ =>
      (mkW (e_remove_range (d_key d) (d_end d) (w_store w)) true
           (w_events w ++ map (fun o => WEv true (mkKv (k_key o) [] 0 nr 0 0) (Some o)) olds),
       RsDel nr (lenZ olds) (if d_prev_kv d then olds else []))
  end.

(* apply one operation; every compare of a nested transaction is evaluated against the store the
   outermost transaction started from (etcd resolves the whole compare path first) *)
Fixpoint apply_op (s0 : estate) (nr : Z) (w : wstate) (op : reqop) {struct op} : option (wstate * respop) :=
  match op with
  | OpRange r =>
      match r_key r with
      | [] => None
      | _ => match store_at s0 (w_store w) (r_rev r) with
             | None => None
             | Some st => Some (w, do_range st r nr)
             end
      end
  | OpPut p => apply_put nr w p
  | OpDel d => Some (apply_del nr w d)
  | OpTxn cs s f =>
      let b := eval_cmps (e_cur s0) cs in
      (fix go (w : wstate) (ops : list reqop) (acc : list respop) {struct ops} : option (wstate * respop) :=
         match ops with
         | [] => Some (w, RsTxnR nr b (rev acc))
         | o :: ops' =>
             match apply_op s0 nr w o with
             | None => None
             | Some (w', r) => go w' ops' (r :: acc)
             end
         end) w (if b then s else f) []
  end.

Fixpoint apply_ops (s0 : estate) (nr : Z) (w : wstate) (ops : list reqop) : option (wstate * list respop) :=
  match ops with
  | [] => Some (w, [])
  | o :: ops' =>
      match apply_op s0 nr w o with
      | None => None
      | Some (w', r) =>
          match apply_ops s0 nr w' ops' with
          | None => None
          | Some (w'', rs) => Some (w'', r :: rs)
          end
      end
  end.

(* ---- request validation (v3rpc checkTxnRequest / checkIntervals, simplified): "structurally valid" *)

Definition cmp_wf (c : compare) : bool := negb (beqb (c_key c) []).
Definition put_wf (p : put_req) : bool :=
  negb (beqb (p_key p) []) && (negb (p_ign_val p) || beqb (p_val p) []) && (negb (p_ign_lease p) || (p_lease p =? 0)).

Fixpoint op_wf (op : reqop) : bool :=
  match op with
  | OpRange r => negb (beqb (r_key r) [])
  | OpPut p => put_wf p
  | OpDel d => negb (beqb (d_key d) [])
  | OpTxn cs s f => forallb cmp_wf cs && forallb op_wf s && forallb op_wf f
  end.

(* keys written by puts / intervals deleted, nested transactions flattened (both branches) *)
Fixpoint op_puts (op : reqop) : list bytes :=
  match op with
  | OpPut p => [p_key p]
  | OpTxn _ s f => flat_map op_puts s ++ flat_map op_puts f
  | _ => []
  end.
Fixpoint op_dels (op : reqop) : list (bytes * bytes) :=
  match op with
  | OpDel d => [(d_key d, d_end d)]
  | OpTxn _ s f => flat_map op_dels s ++ flat_map op_dels f
  | _ => []
  end.

Fixpoint nodupb (l : list bytes) : bool :=
  match l with
  | [] => true
  | x :: l' => negb (existsb (beqb x) l') && nodupb l'
  end.

Definition branch_wf (ops : list reqop) : bool :=
  let puts := flat_map op_puts ops in
  let dels := flat_map op_dels ops in
  nodupb puts && forallb (fun k => negb (existsb (fun d => in_range (fst d) (snd d) k) dels)) puts.

Definition txn_wf (t : txn_req) : bool :=
  forallb cmp_wf (t_cmp t) && forallb op_wf (t_succ t) && forallb op_wf (t_fail t)
  && branch_wf (t_succ t) && branch_wf (t_fail t).

(* ---- Txn: None = the request is rejected (no effect) *)
Definition etcd_txn (s : estate) (nr : Z) (t : txn_req) : estate * txn_resp :=
  if negb (txn_wf t) then (s, TErr)
  else
    let b := eval_cmps (e_cur s) (t_cmp t) in
    match apply_ops s nr (mkW (e_cur s) false []) (if b then t_succ t else t_fail t) with
    | None => (s, TErr)
    | Some (w, rs) =>
        if w_wrote w then
          (mkE nr (Z.max (e_now s) nr) (w_store w) ((nr, w_store w) :: e_hist s) (e_events s ++ w_events w), TOk nr b rs)
        else (e_tick s nr, TOk (e_rev s) b rs)
    end.

Definition etcd_range (s : estate) (r : range_req) : range_resp :=
  match r_key r with
  | [] => RErr
  | _ =>
      match store_at s (e_cur s) (r_rev r) with
      | None => RErr
      | Some st =>
          match do_range st r (e_rev s) with
          | RsRange h kvs c m => ROk h kvs c m
          | _ => RErr
          end
      end
  end.

(* events of a watch on [key, range_end) from start revision (0 = everything recorded: the model's
   watchers are created before the history) *)
Definition ev_kv (e : wevent) : kv := match e with WEv _ k _ => k end.
Definition etcd_watch (s : estate) (key rend : bytes) (start : Z) : list wevent :=
  filter (fun e => in_range key rend (k_key (ev_kv e)) && (start <=? k_mod (ev_kv e))) (e_events s).

(* ================================================================== (ii) KubeBrain: backend + shim *)

Local Open Scope N_scope.

Definition tombstone : bytes := [116; 111; 109; 98; 115; 116; 111; 110; 101].   (* "tombstone" *)
Definition max_u64 : N := 18446744073709551615.

Definition u64_of_Z (z : Z) : N := Z.to_N (z mod 18446744073709551616)%Z.       (* uint64(int64) *)
Definition i64_of_N (n : N) : Z :=                                              (* int64(uint64) *)
  let z := Z.of_N (n mod two64) in
  if (z <? 9223372036854775808)%Z then z else (z - 18446744073709551616)%Z.
Definition wrap64 (z : Z) : Z := i64_of_N (u64_of_Z z).                           (* int64 arithmetic *)

(* per key: the index record {revision, deletion flag} and the object records, newest first *)
Record bkey := mkBK { bk_idx : option (N * bool); bk_vers : list (N * bytes) }.
Definition bstore := list (bytes * bkey).         (* sorted by key *)

Inductive btyp := BCreate | BPut | BDelete.
(* proto.Event: type, revision, kv.key, kv.value, kv.revision *)
Inductive bevent := BEv (t : btyp) (rev : N) (key val : bytes) (kvrev : N).

Record bstate := mkB { b_rev : N; b_kv : bstore; b_events : list bevent }.
Definition b_init (base : N) : bstate := mkB base [] [].

Definition bk_empty : bkey := mkBK None [].

Fixpoint b_find (k : bytes) (s : bstore) : bkey :=
  match s with
  | [] => bk_empty
  | (k', x) :: s' => if beqb k' k then x else b_find k s'
  end.

Fixpoint b_set (k : bytes) (n : bkey) (s : bstore) : bstore :=
  match s with
  | [] => [(k, n)]
  | (k', x) :: s' =>
      match bcmp k k' with
      | Lt => (k, n) :: (k', x) :: s'
      | Eq => (k, n) :: s'
      | Gt => (k', x) :: b_set k n s'
      end
  end.

(* getInternalVal (range.go): newest object record with revision <= rev (0 = MaxUint64) *)
Fixpoint vers_at (vs : list (N * bytes)) (rev : N) : option (N * bytes) :=
  match vs with
  | [] => None
  | (r, v) :: vs' => if r <=? rev then Some (r, v) else vers_at vs' rev
  end.

Inductive bget := GNotFound | GFound (v : bytes) (r : N).

(* get (range.go): the reserved value reads as "not found" *)
Definition b_get (s : bstore) (k : bytes) (rev : N) : bget :=
  match vers_at (bk_vers (b_find k s)) (if rev =? 0 then max_u64 else rev) with
  | None => GNotFound
  | Some (r, v) => if beqb v tombstone then GNotFound else GFound v r
  end.

(* deal (backend.go): always allocates; fails when the caller's previous revision is ahead *)
Definition drift (prev newrev : N) : bool := (0 <? prev) && (newrev <? prev).

(* create (txn.go, creator/naive.go): put-if-absent on the index record; an index record with the
   deletion flag and an older revision is replaced by compare-and-swap *)
Definition b_create (st : bstate) (k v : bytes) (t : btyp) : bstate * N * bool :=
  let rev := b_rev st + 1 in
  let x := b_find k (b_kv st) in
  let ok := match bk_idx x with
            | None => true
            | Some (prev, tomb) => tomb && (prev <? rev)
            end in
  if ok then
    (mkB rev (b_set k (mkBK (Some (rev, false)) ((rev, v) :: bk_vers x)) (b_kv st))
         (b_events st ++ [BEv t rev k v rev]), rev, true)
  else (mkB rev (b_kv st) (b_events st), rev, false).

Inductive bwrite := BWErr | BWOk (hdr : N) (succ : bool) (cur : option (bytes * bytes * N)).

Definition cur_kv (s : bstore) (k : bytes) : option (bytes * bytes * N) :=
  match b_get s k 0 with GFound v r => Some (k, v, r) | GNotFound => None end.

(* Delete (txn.go:66-171) *)
Definition b_delete (st : bstate) (k : bytes) (exp : N) : bstate * bwrite :=
  let rev := b_rev st + 1 in
  let burned := mkB rev (b_kv st) (b_events st) in
  match b_get (b_kv st) k 0 with
  | GNotFound => (burned, BWOk rev false None)                       (* mustDeal ignores the drift *)
  | GFound oldv modrev =>
      if drift exp rev then (burned, BWErr)
      else if (0 <? exp) && negb (exp =? modrev) then
        (burned, BWOk (N.max rev modrev) false (Some (k, oldv, modrev)))
      else if rev <=? modrev then (burned, BWErr)
      else
        let x := b_find k (b_kv st) in
        match bk_idx x with
        | Some (ir, false) =>
            if ir =? modrev then
              (mkB rev (b_set k (mkBK (Some (rev, true)) ((rev, tombstone) :: bk_vers x)) (b_kv st))
                   (b_events st ++ [BEv BDelete rev k oldv modrev]),
               BWOk rev true (Some (k, oldv, modrev)))
            else (burned, BWOk (N.max rev modrev) false (Some (k, oldv, modrev)))
        | _ => (burned, BWOk (N.max rev modrev) false (Some (k, oldv, modrev)))
        end
  end.

(* Update (txn.go:173-262): expected revision 0 takes the create path *)
Definition b_update (st : bstate) (k v : bytes) (exp : N) : bstate * bwrite :=
  if exp =? 0 then
    match b_create st k v BCreate with
    | (st', rev, true) => (st', BWOk rev true None)
    | (st', rev, false) =>
        match b_get (b_kv st') k 0 with
        | GNotFound => (st', BWOk rev false None)
        | GFound cv cr => (st', BWOk (N.max rev cr) false (Some (k, cv, cr)))
        end
    end
  else
    let rev := b_rev st + 1 in
    let burned := mkB rev (b_kv st) (b_events st) in
    if drift exp rev then (burned, BWErr)
    else
      let x := b_find k (b_kv st) in
      match bk_idx x with
      | Some (ir, false) =>
          if ir =? exp then
            (mkB rev (b_set k (mkBK (Some (rev, false)) ((rev, v) :: bk_vers x)) (b_kv st))
                 (b_events st ++ [BEv BPut rev k v rev]), BWOk rev true None)
          else
            match b_get (b_kv st) k 0 with
            | GNotFound => (burned, BWOk rev false None)
            | GFound cv cr => (burned, BWOk (N.max rev cr) false (Some (k, cv, cr)))
            end
      | _ =>
          match b_get (b_kv st) k 0 with
          | GNotFound => (burned, BWOk rev false None)
          | GFound cv cr => (burned, BWOk (N.max rev cr) false (Some (k, cv, cr)))
          end
      end.

(* Get (range.go:33-74) *)
Definition b_get_resp (st : bstate) (k : bytes) (rev : N) : N * option (bytes * bytes * N) :=
  match b_get (b_kv st) k rev with
  | GNotFound => (b_rev st, None)
  | GFound v r => (N.max (b_rev st) r, Some (k, v, r))      (* whatever the value is, also an empty one *)
  end.

(* scanner worker at a read revision: per key the newest object record <= rev, unless reserved value *)
Definition b_scan (s : bstore) (key rend : bytes) (rev : N) : list (bytes * bytes * N) :=
  flat_map (fun e =>
              if bleb key (fst e) && bltb (fst e) rend then
                match vers_at (bk_vers (snd e)) rev with
                | Some (r, v) => if beqb v tombstone then [] else [(fst e, v, r)]
                | None => []
                end
              else []) s.

Inductive blist := BLErr | BLOk (hdr : N) (kvs : list (bytes * bytes * N)) (more : bool).

(* List (range.go:122-176) *)
Definition b_list (st : bstate) (key rend : bytes) (limit : Z) (rev : N) : blist :=
  match rend with
  | [] => BLErr
  | _ =>
      if negb (bltb key rend) then BLErr
      else
        let rq := if rev =? 0 then b_rev st else rev in
        let lim := if (0 <? limit)%Z then wrap64 (limit + 1) else limit in
        let all := b_scan (b_kv st) key rend rq in
        let kvs := if (0 <? lim)%Z then takeZ all lim else all in
        if (0 <? lim)%Z && (limit <? lenZ kvs)%Z then BLOk (b_rev st) (takeZ kvs limit) true
        else BLOk (b_rev st) kvs false
  end.

(* Count (range.go:178-208), EnableEtcdCompatibility = true *)
Definition b_count (st : bstate) (key rend : bytes) : N * N :=
  (b_rev st, N.of_nat (length (b_scan (b_kv st) key rend (b_rev st)))).

(* ---------------------------------------------------------------- the shim *)

Definition get_mod (c : compare) : Z := union_mod (c_union c).
Definition is_mod_eq (c : compare) : bool :=
  match c_target c, c_result c with TMod, REqual => true | _, _ => false end.

(* kv.go:160-171 *)
Definition isCreate (t : txn_req) : option put_req :=
  match t_cmp t, t_fail t, t_succ t with
  | [c], [], [OpPut p] => if is_mod_eq c && (get_mod c =? 0)%Z then Some p else None
  | _, _, _ => None
  end.

(* kv.go:173-192 *)
Definition isDelete (t : txn_req) : option (Z * bytes) :=
  match t_cmp t, t_fail t, t_succ t with
  | [], [], [OpRange _; OpDel d] => Some (0%Z, d_key d)
  | [c], [OpRange _], [OpDel d] => if is_mod_eq c then Some (get_mod c, d_key d) else None
  | _, _, _ => None
  end.

(* kv.go:194-209: the key is the compared key, value and lease come from the put *)
Definition isUpdate (t : txn_req) : option (Z * bytes * bytes * Z) :=
  match t_cmp t, t_succ t, t_fail t with
  | [c], [OpPut p], [OpRange _] => if is_mod_eq c then Some (get_mod c, c_key c, p_val p, p_lease p) else None
  | _, _, _ => None
  end.

Definition compact_rev_key : bytes := [99; 111; 109; 112; 97; 99; 116; 95; 114; 101; 118; 95; 107; 101; 121].

(* kv.go:211-221 *)
Definition isCompact (t : txn_req) : bool :=
  match t_cmp t, t_succ t, t_fail t with
  | [c], [OpPut _], [OpRange _] =>
      match c_target c, c_result c with
      | TVersion, REqual => beqb (c_key c) compact_rev_key
      | _, _ => false
      end
  | _, _, _ => false
  end.

Definition shim_kv (x : bytes * bytes * N) : kv :=
  match x with (k, v, r) => mkKv k v 0 (i64_of_N r) 0 0 end.
Definition opt_kvs (x : option (bytes * bytes * N)) : list kv :=
  match x with Some y => [shim_kv y] | None => [] end.

(* RPCServer.Txn on the leader (kv.go:78-142) + backendShim.Create/Delete/Update *)
Definition shim_txn (st : bstate) (t : txn_req) : bstate * txn_resp :=
  match isCreate t with
  | Some p =>
      if p_ign_lease p || p_ign_val p || p_prev_kv p then (st, TErr)
      else
        match b_create st (p_key p) (p_val p) BCreate with
        | (st', rev, ok) => (st', TOk (i64_of_N rev) ok [RsPut (i64_of_N rev) None])
        end
  | None =>
      match isDelete t with
      | Some (rev, key) =>
          match b_delete st key (u64_of_Z rev) with
          | (st', BWErr) => (st', TErr)
          | (st', BWOk h ok cur) => (st', TOk (i64_of_N h) ok [RsRange (i64_of_N h) (opt_kvs cur) 0 false])
          end
      | None =>
          match isUpdate t with
          | Some (rev, key, val, lease) =>
              match b_update st key val (u64_of_Z rev) with
              | (st', BWErr) => (st', TErr)
              | (st', BWOk h true _) => (st', TOk (i64_of_N h) true [RsPut (i64_of_N h) None])
              | (st', BWOk h false cur) => (st', TOk (i64_of_N h) false [RsRange (i64_of_N h) (opt_kvs cur) 0 false])
              end
          | None =>
              if isCompact t then (st, TOk 0 false [RsRange 0 [empty_kv] 1 false])
              else (st, TErr)
          end
      end
  end.

Definition partition_magic : Z := 1888.

(* RPCServer.Range on the leader (kv.go:37-76) + backendShim.Get/List/Count/GetPartitions *)
Definition shim_range (st : bstate) (r : range_req) : range_resp :=
  match r_end r with
  | [] =>
      match b_get_resp st (r_key r) (u64_of_Z (r_rev r)) with
      | (h, Some x) => ROk (i64_of_N h) [shim_kv x] 1 false
      | (h, None) => ROk (i64_of_N h) [] 0 false
      end
  | _ =>
      if (r_rev r =? partition_magic)%Z then
        (* memkv: one partition; the reply lists its two borders as internal keys *)
        ROk (i64_of_N (b_rev st)) [mkKv (encode (r_key r) 0) [] 0 0 0 0; mkKv (encode (r_end r) 0) [] 0 0 0 0] 2 false
      else if r_count_only r then
        match b_count st (r_key r) (r_end r) with
        | (h, n) => ROk (i64_of_N h) [] (i64_of_N n) false
        end
      else
        match b_list st (r_key r) (r_end r) (r_limit r) (u64_of_Z (r_rev r)) with
        | BLErr => RErr
        | BLOk h kvs more =>
            ROk (i64_of_N h) (map shim_kv kvs) (lenZ kvs + (if more then 1 else 0))%Z more
        end
  end.

(* backendShim.Watch event shaping (backendshim.go:372-412) *)
Definition shim_event (e : bevent) : wevent :=
  match e with
  | BEv BDelete rev k v kvrev =>
      WEv true (mkKv k [] 0 (i64_of_N rev) 0 0) (Some (mkKv k v 0 (i64_of_N kvrev) 0 0))
  | BEv _ rev k v kvrev =>
      WEv false (mkKv k v (i64_of_N kvrev) (i64_of_N kvrev) 0 0) None
  end.

Definition bev_rev (e : bevent) : N := match e with BEv _ r _ _ _ => r end.
Definition bev_key (e : bevent) : bytes := match e with BEv _ _ k _ _ => k end.

(* Backend.Watch(prefix, revision): the recorded events with revision >= start under the prefix *)
Definition shim_watch (st : bstate) (prefix : bytes) (start : N) : list wevent :=
  map shim_event (filter (fun e => has_prefix prefix (bev_key e) && (start <=? bev_rev e)) (b_events st)).
