(* Correspondence cases for C15: a script of elections (real lock Get/Create|Update + Describe +
   parse + SetCurrentRevision), requests and List(0) calls executed by real Backends over one
   engine, with what was observed after each action. *)
From KB Require Export Base.Cases Model.Election Model.Handover.
Local Open Scope N_scope.

Inductive act :=
| AElect (c : cid) (h bc bu : bytes) (t1 t2 : N) (tf : bool)
                                                    (* process c: tryAcquireOrRenew + OnStartedLeading; bc/bu = bytes of the record it
                                                       would create / update to; t1,t2 = what the engine's oracle answered (environment);
                                                       tf = the oracle fails on the read that follows the committed lock write *)
| ASync (c : cid) (r : N)                           (* follower c serves a read: revision.SyncReadRevision -> SetCurrentRevision(r) *)
| AOp (c : cid) (o : hop)
| AList (c : cid)
| AGet (c : cid) (t : N)                            (* a standby polls the lock: resourceLock.Get() without acquiring (t = oracle answer) *)
| ARestart.                                         (* the engine is closed and reopened on the same files (Badger only) *)

Inductive aobs :=
| OElect (r : eres) (g w : res) (dump : dstore) (lockb : option bytes)   (* outcome; error classes of Get and of Create/Update; decoded raw engine content afterwards *)
| OOp (r : hres)
| OList (hdr : N) (kvs : list (bytes * bytes * N))
| OGet (r : res)
| OSync
| ORestart.

Record c15_case := mkC15 { c_engine : engine; c_script : list (act * aobs) }.

(* ---------- equality tests ---------- *)
Definition hclass_eqb (a b : hclass) : bool :=
  match a, b with HOk, HOk | HCond, HCond | HNotFound, HNotFound | HErr, HErr => true | _, _ => false end.
Definition hres_eqb (a b : hres) : bool := hclass_eqb (h_class a) (h_class b) && (h_rev a =? h_rev b).
Definition eres_eqb (a b : eres) : bool :=
  match a, b with
  | EAcquired x, EAcquired y => x =? y
  | ENotAcquired, ENotAcquired | EBadInfo, EBadInfo => true
  | _, _ => false
  end.
Definition obj_eqb (a b : obj) : bool := (fst a =? fst b) && opt_eqb beqb (snd a) (snd b).
Definition idx_eqb (a b : N * bool) : bool := (fst a =? fst b) && Bool.eqb (snd a) (snd b).
Definition krec_eqb (a b : krec) : bool :=
  opt_eqb idx_eqb (k_idx a) (k_idx b) && list_eqb obj_eqb (k_objs a) (k_objs b).
Definition dstore_eqb (a b : dstore) : bool :=
  list_eqb (fun x y => beqb (fst x) (fst y) && krec_eqb (snd x) (snd y)) a b.
Definition kv_eqb (a b : bytes * bytes * N) : bool :=
  beqb (fst (fst a)) (fst (fst b)) && beqb (snd (fst a)) (snd (fst b)) && (snd a =? snd b).

(* ---------- running the model on a script ---------- *)
Record mstate := mkM { m_w : world; m_p : cid -> proc }.
Definition mstate0 : mstate := mkM world0 (fun _ => proc0).

Definition m_step (e : engine) (s : mstate) (a : act) : mstate * aobs :=
  match a with
  | AElect c h bc bu t1 t2 tf =>
      let '(w', p', r, g, wr) := elect_f e (m_w s) (m_p s c) h bc bu t1 t2 tf in
      (mkM w' (upd (m_p s) c p'), OElect r g wr (w_data w') (rec_bytes (w_lock w')))
  | AOp c o =>
      let '(w', p', r) := serve (m_w s) (m_p s c) o in
      (mkM w' (upd (m_p s) c p'), OOp r)
  | AList c =>
      let rev := committed (p_lead (m_p s c)) in
      (s, OList rev (list_at (w_data (m_w s)) rev))
  | AGet c t =>
      let g := do_get (w_lock (m_w s)) (p_lock (m_p s c)) GOk (TOk (clock e (m_w s) t)) in
      (mkM (m_w s) (upd (m_p s) c (mkP (o_cand g) (p_lead (m_p s c)))), OGet (o_res g))
  | ASync c r =>
      (mkM (m_w s) (upd (m_p s) c (mkP (p_lock (m_p s c)) (set_current (p_lead (m_p s c)) r))), OSync)
  | ARestart => (mkM (restart e (m_w s)) (m_p s), ORestart)
  end.

Definition aobs_eqb (a b : aobs) : bool :=
  match a, b with
  | OElect r g w d l, OElect r' g' w' d' l' =>
      eres_eqb r r' && res_eqb g g' && res_eqb w w' && dstore_eqb d d' && opt_eqb beqb l l'
  | OOp r, OOp r' => hres_eqb r r'
  | OList h k, OList h' k' => (h =? h') && list_eqb kv_eqb k k'
  | OGet r, OGet r' => res_eqb r r'
  | OSync, OSync => true
  | ORestart, ORestart => true
  | _, _ => false
  end.

Fixpoint c15_run (e : engine) (s : mstate) (xs : list (act * aobs)) : bool :=
  match xs with
  | [] => true
  | (a, o) :: tl => let '(s', o') := m_step e s a in aobs_eqb o' o && c15_run e s' tl
  end.

Definition c15_check (c : c15_case) : bool := c15_run (c_engine c) mstate0 (c_script c).

(* ---------- the property on the implementation's observations ----------
   After a process has become leader (OElect (EAcquired v)) with the engine content `dump`:
   (a) every revision it hands out (header of a succeeded / not-found response) exceeds every
       revision in dump;
   (b) the first request on a key that is live in dump, if it is an Update/Delete guarded with the
       key's true revision (the index record in dump), succeeds;
   (c) every List(0) it serves returns, for the keys it has not written to since the election, exactly the
       newest version of every live key of dump (before its first request: for all keys);
   (d) every List(0) it serves reads at a revision that has caught up with everything it has handed
       out (the node is not wedged).
   Violations are classified: 1 = finding C15-F1 (engine = Badger and the timestamp the leader
   started from is below the stored maximum or below a revision the node had already synced to as a
   follower), 0 = anything else. *)
Record ost15 := mkOS {
  os_leader  : option cid;
  os_base    : N;                 (* the version the leader started from *)
  os_dump    : dstore;
  os_touched : list bytes;        (* keys the leader has written to since *)
  os_fresh   : bool;              (* no request served since the election *)
  os_last    : N;                 (* largest revision the leader has handed out *)
  os_sbase   : N;                 (* largest revision the leader had synced to as a follower *)
  os_syncs   : cid -> N           (* per process: largest revision it was synced to *)
}.
Definition ost0 : ost15 := mkOS None 0 [] [] false 0 0 (fun _ => 0).

Definition hop_key (o : hop) : bytes :=
  match o with HCreate k _ | HUpdate k _ _ | HDelete k _ => k end.
Definition guarded_true (d : dstore) (o : hop) : bool :=
  match o with
  | HUpdate k _ prev | HDelete k prev =>
      (0 <? prev) && match k_idx (dget d k) with Some (r, false) => r =? prev | _ => false end
  | _ => false
  end.
(* the entries of a List result whose key the leader has not written to since the election *)
Definition restrict (touched : list bytes) (kvs : list (bytes * bytes * N)) : list (bytes * bytes * N) :=
  filter (fun kv => negb (existsb (beqb (fst (fst kv))) touched)) kvs.

Definition o15_step (s : ost15) (x : act * aobs) : option ost15 :=
  match x with
  | (AElect c _ _ _ _ _ _, OElect (EAcquired v) _ _ dump _) =>
      Some (mkOS (Some c) v dump [] true 0 (os_syncs s c) (os_syncs s))
  | (AElect c _ _ _ _ _ _, OElect _ _ _ _ _) => Some s
  | (AOp c o, OOp r) =>
      match os_leader s with
      | Some l =>
          if c =? l then
            let m := dmax (os_dump s) in
            let k := hop_key o in
            let first := negb (existsb (beqb k) (os_touched s)) in
            let handed := match h_class r with HOk | HNotFound => true | _ => false end in
            let ok_a := if handed then m <? h_rev r else true in
            let ok_b := if first && guarded_true (os_dump s) o then hclass_eqb (h_class r) HOk else true in
            if ok_a && ok_b
            then Some (mkOS (os_leader s) (os_base s) (os_dump s) (k :: os_touched s) false
                            (if handed then N.max (os_last s) (h_rev r) else os_last s) (os_sbase s) (os_syncs s))
            else None
          else Some s
      | None => Some s
      end
  | (AList c, OList hdr kvs) =>
      match os_leader s with
      | Some l => if c =? l
                  then if (os_last s <=? hdr)
                          && list_eqb kv_eqb (restrict (os_touched s) kvs) (restrict (os_touched s) (list_latest (os_dump s)))
                       then Some s else None
                  else Some s
      | None => Some s
      end
  | (ASync c r, OSync) =>
      Some (mkOS (os_leader s) (os_base s) (os_dump s) (os_touched s) (os_fresh s) (os_last s) (os_sbase s)
                 (upd (os_syncs s) c (N.max (os_syncs s c) r)))
  | (ARestart, ORestart) => Some s
  | (AGet _ _, OGet _) => Some s
  | _ => None          (* an observation of the wrong shape *)
  end.

Definition f1_signature (e : engine) (s : ost15) : bool :=
  engine_eqb e EBadger && (os_base s <? N.max (dmax (os_dump s)) (os_sbase s)).

Fixpoint o15_run (e : engine) (s : ost15) (xs : list (act * aobs)) : option N :=
  match xs with
  | [] => None
  | x :: tl =>
      match o15_step s x with
      | Some s' => o15_run e s' tl
      | None => Some (if f1_signature e s then 1 else 0)
      end
  end.

Definition c15_oracle (c : c15_case) : option N := o15_run (c_engine c) ost0 (c_script c).

(* ---------- validity, decidable: evaluated on every case by the shard ----------
   A process is elected at most once and only synced as a follower before that (el = elected so far),
   only the current leader serves requests, and on the environment clocks (memkv, TiKV) the reading
   installed at a hand-over is at or above every stored revision and every revision the node had
   synced to — the rate hypothesis, checked on the observed clock readings instead of assumed. *)
Definition cid_in (c : cid) (el : list cid) : bool := existsb (N.eqb c) el.
Definition ldr_is (ldr : option cid) (c : cid) : bool := match ldr with Some l => l =? c | None => false end.

Fixpoint v15b (e : engine) (s : mstate) (ldr : option cid) (el : list cid) (xs : list (act * aobs)) : bool :=
  match xs with
  | [] => true
  | (a, _) :: tl =>
      let s' := fst (m_step e s a) in
      match a with
      | AElect c _ _ _ _ _ _ =>
          negb (cid_in c el) &&
          match snd (m_step e s a) with
          | OElect (EAcquired v) _ _ d _ =>
              (engine_eqb e EBadger || ((dmax d <=? v) && (deal (p_lead (m_p s c)) <=? v))) && v15b e s' (Some c) (c :: el) tl
          | _ => v15b e s' ldr el tl
          end
      | ASync c _ => negb (cid_in c el) && v15b e s' ldr el tl
      | AOp c _ | AList c => ldr_is ldr c && v15b e s' ldr el tl
      | AGet _ _ | ARestart => v15b e s' ldr el tl
      end
  end.
Definition c15_validb (c : c15_case) : bool := v15b (c_engine c) mstate0 None [] (c_script c).

(* what the shards evaluate: a case that is not valid counts as a disagreement *)
Definition c15_checkv (c : c15_case) : bool := c15_validb c && c15_check c.

(* ---------- the real Campaign() runs (child processes of the driver) as cases ----------
   The real leader.NewLeaderElection(...).Campaign() is run on a store with data; the harness records
   the node-level events in the order it observed them, as labels of the callback model
   (Model/Handover.v nstep): NSyncCheck (a follower read passed its IsLeader() check and waits for the
   old leader), NParse v (the gauge "leader.election.initial.version" reported v), NInstall
   (SetCurrentRevision), NFlag (IsLeader() turned true), NRequest (a write admitted by IsLeader()),
   NSyncInstall r (the old leader's late answer r reached installRevision). *)
Record camp_case := mkCamp {
  k_version   : N;                  (* the version OnStartedLeading reported and installed *)
  k_maxrev    : N;                  (* largest stored revision when the election began *)
  k_labels    : list nlabel;
  k_handed    : list (option N);    (* per label: the revision a request was answered with *)
  k_committed : N                   (* Backend.GetCurrentRevision() at the end *)
}.

Definition on_eqb (a b : option N) : bool := opt_eqb N.eqb a b.

Definition camp_check (k : camp_case) : bool :=
  let '(x, os) := nrun node0 (k_labels k) in
  list_eqb on_eqb os (k_handed k)
  && (committed (n_lead x) =? k_committed k)
  && match n_pc x with CbLeading v => v =? k_version k | _ => false end
  && (k_maxrev k <=? k_version k).      (* validity: memkv's clock is ahead of the stored revisions *)

(* the property on the observations alone: every revision handed out is above every stored one, and
   the node's read revision has not fallen below the version it started from *)
Definition camp_oracle (k : camp_case) : option N :=
  ok_if (forallb (fun o => match o with Some r => k_maxrev k <? r | None => true end) (k_handed k)
         && (k_version k <=? k_committed k)).

Inductive c15_any := KScript (c : c15_case) | KCampaign (k : camp_case).
Definition c15_any_check (c : c15_any) : bool :=
  match c with KScript c => c15_checkv c | KCampaign k => camp_check k end.
Definition c15_any_oracle (c : c15_any) : option N :=
  match c with KScript c => c15_oracle c | KCampaign k => camp_oracle k end.
