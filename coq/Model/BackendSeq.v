(* The sequential request programs of the backend, parametrised by an adapter model:
   pkg/backend/txn.go (Create, Update, Delete, create, update, delete, deal), creator/naive.go,
   range.go (Get, get, getInternalVal, List), compact.go (Compact, compact, setCompactRecord, borders),
   scanner/scanner.go (Range, rangeWithLimit, scan with one partition, checkCompactRace, worker.run with
   and without compaction) and the event each valid write hands to the sequencer (backend.go:229-257).
   Sequential = the committed revision has caught up with the allocated one between two requests, no
   uncertain write is queued, no compaction is older than the events TTL (expiry: C17), keys hold no "/events/".
   Transcribed branch by branch.  Definitions only. *)
From KB Require Export Model.Adapters Model.Coder.

Inductive req :=
| QCreate (k v : bytes)
| QUpdate (k v : bytes) (rev : N)
| QDelete (k : bytes) (rev : N)
| QGet (k : bytes) (rev : N)
| QList (a b : bytes) (rev limit : N)
| QCompact (rev : N)
| QCount (a b : bytes)                               (* Count with EnableEtcdCompatibility on *)
| QStream (a b : bytes) (rev : N)                    (* ListByStream(Enc(a,0), Enc(b,0), rev), drained *)
| QRestart.                                          (* the node restarts: engine closed and reopened where it persists, a new
                                                        backend takes over with SetCurrentRevision(the revision reached) *)

Definition kvrev := (bytes * N)%type.                 (* value, mod revision *)

Inductive resp :=
| PErr                                                (* the call returned a Go error *)
| PPanic
| PCreate (ok : bool) (hdr : N)
| PUpdate (ok : bool) (hdr : N) (kv : option kvrev)
| PDelete (ok : bool) (hdr : N) (kv : option kvrev)
| PGet (hdr : N) (kv : option kvrev)
| PList (hdr : N) (kvs : list (bytes * bytes * N)) (more : bool)
| PCompact (hdr : N) (err : bool)
| PCount (hdr : N) (count : N)
| PStream (kvs : list (bytes * bytes * N)) (err : bool)   (* all batches concatenated; the end marker carried an error *)
| PHang                                               (* no answer within the driver's watchdog: never produced by the programs *)
| PRestarted.                                         (* the driver's mark for a restart step; clients see nothing *)

(* proto.Event: type (CREATE 0, PUT 1, DELETE 2), Kv.Key, Kv.Value, Kv.Revision, Revision *)
Definition event := (N * bytes * bytes * N * N)%type.

Inductive berr := BCas | BNotFound | BOther | BPanic.

Definition err_of (c : rclass) : option berr :=
  match c with
  | ROk => None
  | RCond => Some BCas            (* errors.Is(err, storage.ErrCASFailed) *)
  | RNotFound => Some BNotFound   (* storage.ErrKeyNotFound *)
  | ROther => Some BOther
  | RPanic => Some BPanic
  end.

Definition tombstone : bytes := [116; 111; 109; 98; 115; 116; 111; 110; 101].   (* "tombstone" *)
Definition max64 : N := 18446744073709551615.
Definition slash : N := 47.
Definition compact_suffix : bytes := [47; 99; 111; 109; 112; 97; 99; 116; 95; 107; 101; 121].   (* "/compact_key" *)

Section Programs.
Variable A : adapter.
Variable prefix : bytes.        (* Config.Prefix *)

Definition compact_key : bytes := prefix ++ compact_suffix.

Record bstate := mk_bs { k_st : a_state A; k_rev : N }.   (* engine; committed = allocated revision *)

(* ---------- range.go: get / getInternalVal ---------- *)

Inductive gres :=
| GOk (v : bytes) (modrev : N)
| GErr (e : berr) (modrev : N).

Definition get_internal (s : a_state A) (key : bytes) (revision : N) : gres :=
  let revision := if revision =? 0 then max64 else revision in
  match a_iter A s (encode key revision) (encode key 0) 1 with
  | [] => GErr BNotFound 0                                   (* io.EOF *)
  | (ik, v, _) :: _ =>
      match decode ik with
      | DecPanic => GErr BPanic 0
      | DecErr => GErr BNotFound 0                           (* modRev == 0 *)
      | DecOk uk r => if (r =? 0) || negb (beqb uk key) then GErr BNotFound 0 else GOk v r
      end
  end.

Definition bget (s : a_state A) (key : bytes) (revision : N) : gres :=
  match get_internal s key revision with
  | GOk v r => if beqb v tombstone then GErr BNotFound r else GOk v r
  | e => e
  end.

(* ---------- creator/naive.go ---------- *)

Definition create_batch (s : a_state A) (rk ok val rb : bytes) :=
  a_batch A s [PutIfNotExist rk rb 0; Put ok val 0].
Definition update_batch (s : a_state A) (rk ok val nrb orb : bytes) :=
  a_batch A s [CAS rk nrb orb 0; Put ok val 0].

Definition creator_create (s : a_state A) (key val : bytes) (revision : N) : a_state A * option berr :=
  let rk := encode key 0 in
  let ok := encode key revision in
  let rb := be64 revision in
  let '(s1, c, cf) := create_batch s rk ok val rb in
  match c with
  | ROk => (s1, None)
  | RCond =>
      let decide (oldrev : bytes) :=
          match parse_revision oldrev with
          | None => (s1, Some BOther)
          | Some (prev, tomb) =>
              if tomb && (prev <? revision)
              then let '(s2, c2, _) := update_batch s1 rk ok val rb oldrev in (s2, err_of c2)
              else (s1, Some BCas)
          end in
      match cf with
      | Some (O, _, v) => decide (match v with Some x => x | None => [] end)     (* conflict.Idx == 0 *)
      | _ =>
          match a_get A s1 rk with
          | (ROk, v) => decide v
          | (RNotFound, _) => let '(s2, c2, _) := create_batch s1 rk ok val rb in (s2, err_of c2)
          | (RPanic, _) => (s1, Some BPanic)
          | _ => (s1, Some BOther)                                               (* ErrUnavailable *)
          end
      end
  | _ => (s1, err_of c)
  end.

(* ---------- txn.go ---------- *)

(* deal (backend.go:190-206): the revision is allocated even when it is rejected *)
Definition deal (st : bstate) (prev : N) : N * bool :=
  let rev := k_rev st + 1 in (rev, (0 <? prev) && (rev <? prev)).     (* true = ErrRevisionDriftBack *)

Definition ev_create : N := 0.
Definition ev_put : N := 1.
Definition ev_delete : N := 2.

(* create (txn.go:64-76) *)
Definition do_create (st : bstate) (key val : bytes) : bstate * option berr * N :=
  let '(rev, _) := deal st 0 in
  let '(s', e) := creator_create (k_st st) key val rev in
  (mk_bs s' rev, e, rev).

Definition q_create (st : bstate) (key val : bytes) : bstate * resp * list event :=
  let '(st', e, rev) := do_create st key val in
  match e with
  | None => (st', PCreate true rev, [(ev_create, key, val, rev, rev)])
  | Some BCas => (st', PCreate false rev, [])
  | Some BPanic => (st', PPanic, [])
  | Some _ => (st', PErr, [])
  end.

(* update (txn.go:250-267) *)
Definition do_update (st : bstate) (old : N) (key val : bytes) : bstate * option berr * N :=
  let '(rev, drift) := deal st old in
  if drift then (mk_bs (k_st st) rev, Some BOther, rev)
  else
    let '(s', c, _) := update_batch (k_st st) (encode key 0) (encode key rev) val (be64 rev) (be64 old) in
    (mk_bs s' rev, err_of c, rev).

Definition q_update (st : bstate) (key val : bytes) (prev : N) : bstate * resp * list event :=
  let '(st', e, rev) := if prev =? 0 then do_create st key val else do_update st prev key val in
  let ev := match e with
            | None => [((if prev =? 0 then ev_create else ev_put), key, val, rev, rev)]
            | Some _ => []
            end in
  match e with
  | None => (st', PUpdate true rev None, ev)
  | Some BCas =>
      match bget (k_st st') key 0 with
      | GErr BNotFound _ => (st', PUpdate false rev None, ev)
      | GErr BPanic _ => (st', PPanic, ev)
      | GErr _ _ => (st', PErr, ev)
      | GOk v m => (st', PUpdate false (N.max rev m) (Some (v, m)), ev)
      end
  | Some BPanic => (st', PPanic, ev)
  | Some _ => (st', PErr, ev)
  end.

(* delete (txn.go:145-191): the error, the old record (value, revision) and the allocated revision *)
Definition do_delete (st : bstate) (expected : N) (key : bytes) : bstate * option berr * N * kvrev * bool :=
  match bget (k_st st) key 0 with
  | GErr e _ =>
      let '(rev, _) := deal st expected in                      (* mustDeal *)
      (mk_bs (k_st st) rev, Some e, rev, ([], 0), false)
  | GOk oldv modrev =>
      let '(rev, drift) := deal st expected in
      let st1 := mk_bs (k_st st) rev in
      if drift then (st1, Some BOther, rev, ([], 0), false)
      else if (0 <? expected) && negb (expected =? modrev) then (st1, Some BCas, rev, (oldv, modrev), true)
      else
        let expected := if expected =? 0 then modrev else expected in
        if rev <=? modrev then (st1, Some BOther, rev, (oldv, modrev), true)
        else
          let '(s', c, _) := a_batch A (k_st st) [CAS (encode key 0) (be64 rev ++ [0]) (be64 expected) 0;
                                                  Put (encode key rev) tombstone 0] in
          (mk_bs s' rev, err_of c, rev, (oldv, modrev), true)
  end.

Definition q_delete (st : bstate) (key : bytes) (expected : N) : bstate * resp * list event :=
  let '(st', e, rev, old, _) := do_delete st expected key in
  let ev := match e with None => [(ev_delete, key, fst old, snd old, rev)] | Some _ => [] end in
  match e with
  | None => (st', PDelete true rev (Some old), ev)
  | Some BNotFound => (st', PDelete false rev None, ev)
  | Some BCas =>
      match bget (k_st st') key 0 with
      | GOk v m => (st', PDelete false (N.max rev m) (Some (v, m)), ev)
      | GErr BPanic _ => (st', PPanic, ev)
      | GErr _ _ => (st', PDelete false rev (Some old), ev)
      end
  | Some BPanic => (st', PPanic, ev)
  | Some BOther => (st', PErr, ev)
  end.

(* Get (range.go:34-74) *)
Definition q_get (st : bstate) (key : bytes) (rev : N) : resp :=
  let cur := k_rev st in
  match bget (k_st st) key rev with
  | GErr BNotFound _ => PGet cur None
  | GErr BPanic _ => PPanic
  | GErr _ _ => PErr
  | GOk v m =>
      let hdr := if cur <? m then m else cur in
      (* the key-value is returned whenever the read succeeded, whatever the value (an adapter may hand an empty value
         back as nil: transcripts compare values up to nil = empty) *)
      PGet hdr (Some (v, m))
  end.

(* ---------- scanner ---------- *)

(* binary.BigEndian.Uint64 panics on a slice shorter than 8 bytes *)
Definition uint64_of (v : bytes) : option N :=
  if Nat.ltb (length v) 8 then None else Some (from_be (firstn 8 v)).

(* checkCompactRace (scanner.go:594-631): None = go on *)
Definition check_compact_race (s : a_state A) (revision : N) (compact : bool) : a_state A * option berr :=
  if compact then
    match a_get A s compact_key with
    | (ROk, v) =>
        if Nat.eqb (length v) 8 && (revision <? from_be v) then (s, None)
        else let '(s', c, _) := a_batch A s [Put compact_key (be64 revision) 0] in (s', err_of c)
    | _ => let '(s', c, _) := a_batch A s [Put compact_key (be64 revision) 0] in (s', err_of c)
    end
  else
    match a_get A s compact_key with
    | (ROk, v) =>
        match uint64_of v with
        | None => (s, Some BPanic)
        | Some cr => if revision <? cr then (s, Some BOther) else (s, None)
        end
    | (RNotFound, _) => (s, None)
    | (RPanic, _) => (s, Some BPanic)
    | _ => (s, Some BOther)
    end.

Record wstate := mk_ws {
  w_st : a_state A;
  w_pkey : bytes; w_prev : N; w_pval : bytes;      (* prevUserKey, prevRevision, prevValue *)
  w_res : list (bytes * bytes * N);                 (* receiver.result, newest last *)
  w_failed : bytes                                  (* lastCompactFailedRawKey *)
}.

Definition need_more (limit : nat) (w : wstate) : bool :=
  match limit with O => true | _ => Nat.ltb (length (w_res w)) limit end.

(* compactKey / compactCurrent (scanner.go:522-564) *)
Definition compact_with (w : wstate) (raw : bytes) (del : a_state A -> a_state A * rclass) : wstate :=
  if negb (match w_failed w with [] => true | _ => false end) && beqb (w_failed w) raw then w
  else
    let '(s', c) := del (w_st w) in
    let failed := match c with ROk | RCond => w_failed w | _ => raw end in
    mk_ws s' (w_pkey w) (w_prev w) (w_pval w) (w_res w) failed.

Definition compact_key_rec (w : wstate) (ik raw : bytes) : wstate := compact_with w raw (fun s => a_del A s ik).
Definition compact_current (w : wstate) (it : item) (raw : bytes) : wstate :=
  compact_with w raw (fun s => let '(s', c, _) := a_delcur A s it in (s', c)).

Definition set_prev (w : wstate) (k : bytes) (r : N) (v : bytes) : wstate :=
  mk_ws (w_st w) k r v (w_res w) (w_failed w).
Definition emit_prev (w : wstate) : wstate :=
  if (0 <? w_prev w) && negb (beqb (w_pval w) tombstone)
  then mk_ws (w_st w) (w_pkey w) (w_prev w) (w_pval w) (w_res w ++ [(w_pkey w, w_pval w, w_prev w)]) (w_failed w)
  else w.

(* worker.run (scanner.go:389-516) over the records of the snapshot; None = a panic in Decode.
   The boolean tells whether the loop was left because the receiver was full (then nothing is added at the end). *)
Fixpoint worker_loop (compact : bool) (revision : N) (limit : nat) (items : list item) (w : wstate)
  : option (wstate * bool) :=
  match items with
  | [] => Some (w, false)                                     (* io.EOF *)
  | it :: rest =>
      if negb (need_more limit w) then Some (w, true)
      else
        let '(ik, v, _) := it in
        match decode ik with
        | DecPanic => None
        | DecErr => worker_loop compact revision limit rest w  (* continue *)
        | DecOk uk r =>
            if revision <? r then worker_loop compact revision limit rest w
            else
              let w1 := if negb (beqb uk (w_pkey w)) then emit_prev w
                        else if compact && (0 <? w_prev w)
                             then compact_key_rec w (encode (w_pkey w) (w_prev w)) (w_pkey w)
                             else w in
              let w2 := if compact && beqb v tombstone then compact_key_rec w1 ik uk else w1 in
              if compact && (r =? 0) && Nat.eqb (length v) 9 then
                if revision <? from_be (firstn 8 v)
                then worker_loop compact revision limit rest w2              (* skip gc; prev* not updated *)
                else worker_loop compact revision limit rest (set_prev (compact_current w2 it uk) uk r v)
              else worker_loop compact revision limit rest (set_prev w2 uk r v)
        end
  end.

Definition worker_run (compact : bool) (revision : N) (limit : nat) (s : a_state A) (a b : bytes)
  : option (a_state A * list (bytes * bytes * N)) :=
  match worker_loop compact revision limit (a_iter A s a b 0) (mk_ws s [] 0 [] [] []) with
  | None => None
  | Some (w, full) =>
      let w' := if full then w else if need_more limit w then emit_prev w else w in
      Some (w_st w', w_res w')
  end.

(* List (range.go:124-174) with scanner.Range / rangeWithLimit / scan on a single partition *)
Definition q_list (st : bstate) (a b : bytes) (rev limit : N) : resp :=
  match b with
  | [] => PErr
  | _ =>
      let cur := k_rev st in
      let req := if rev =? 0 then cur else rev in
      if negb (is_fwd a b) then PErr
      else
        let limit' := if 0 <? limit then limit + 1 else 0 in
        match check_compact_race (k_st st) req false with
        | (_, Some BPanic) => PPanic
        | (_, Some _) => PErr
        | (_, None) =>
            match worker_run false req (N.to_nat limit') (k_st st) (encode a 0) (encode b 0) with
            | None => PPanic
            | Some (_, kvs) =>
                if (0 <? limit') && Nat.ltb (N.to_nat limit) (length kvs)
                then PList cur (firstn (N.to_nat limit) kvs) true
                else PList cur kvs false
            end
        end
  end.

(* Count (range.go:176-205, EnableEtcdCompatibility on): scanner.Count = the number of records a scan emits *)
Definition q_count (st : bstate) (a b : bytes) : resp :=
  let cur := k_rev st in
  match check_compact_race (k_st st) cur false with
  | (_, Some BPanic) => PPanic
  | (_, Some _) => PErr
  | (_, None) =>
      match worker_run false cur 0 (k_st st) (encode a 0) (encode b 0) with
      | None => PPanic
      | Some (_, kvs) => PCount cur (N.of_nat (length kvs))
      end
  end.

(* ListByStream (range.go:253-263) + scanner.RangeStream: an error of the scan travels in the end marker *)
Definition q_stream (st : bstate) (a b : bytes) (rev : N) : resp :=
  let req := if rev =? 0 then k_rev st else rev in
  match check_compact_race (k_st st) req false with
  | (_, Some BPanic) => PPanic
  | (_, Some _) => PStream [] true
  | (_, None) =>
      match worker_run false req 0 (k_st st) (encode a 0) (encode b 0) with
      | None => PPanic
      | Some (_, kvs) => PStream kvs false
      end
  end.

(* Compact (compact.go:18-113) *)
Definition set_compact_record (s : a_state A) (revision : N) : a_state A * option berr * bool :=
  (* the boolean: the record was left alone because it is newer *)
  match a_get A s compact_key with
  | (RPanic, _) => (s, Some BPanic, false)
  | (ROther, _) | (RCond, _) => (s, Some BOther, false)
  | (c, v) =>
      let val := match c with ROk => v | _ => [] end in
      match val with
      | [] => let '(s', c', _) := a_batch A s [PutIfNotExist compact_key (be64 revision) 0] in (s', err_of c', false)
      | _ =>
          match uint64_of val with
          | None => (s, Some BPanic, false)
          | Some cr =>
              if revision <? cr then (s, None, true)
              else let '(s', c', _) := a_batch A s [CAS compact_key (be64 revision) val 0] in (s', err_of c', false)
          end
      end
  end.

Definition with_slash (p : bytes) : bytes :=
  match rev p with
  | x :: _ => if x =? slash then p else p ++ [slash]
  | [] => p ++ [slash]
  end.

Definition q_compact (st : bstate) (revision : N) : bstate * resp :=
  let cur := k_rev st in
  let revision := if (revision =? 0) || (cur <? revision) then cur else revision in
  match set_compact_record (k_st st) revision with
  | (s1, Some BPanic, _) => (mk_bs s1 cur, PPanic)
  | (s1, Some _, _) => (mk_bs s1 cur, PCompact revision true)
  | (s1, None, _) =>
      let p := with_slash prefix in
      let a := encode p 0 in
      let b := encode (prefix_end p) 0 in
      (* scanner.Compact -> scan(compact = true): errors are dropped *)
      match check_compact_race s1 revision true with
      | (s2, Some BPanic) => (mk_bs s2 cur, PPanic)
      | (s2, Some _) => (mk_bs s2 cur, PCompact revision false)
      | (s2, None) =>
          match worker_run true revision 0 s2 a b with
          | None => (mk_bs s2 cur, PPanic)
          | Some (s3, _) => (mk_bs s3 cur, PCompact revision false)
          end
      end
  end.

(* A restart.  The sequential backend keeps nothing but the engine and the two revision counters: the event ring,
   the watcher hub, the retry queue (empty: no uncertain write) and the compaction history (only read for TTL expiry)
   do not enter any answer of the programs above.  The engine's content survives (Badger: the directory is reopened;
   the mock cluster and the in-memory map outlive the backend); the new backend is told the revision the old one had
   reached (SetCurrentRevision: committed := rev, allocated raised to rev). *)
Definition q_restart (st : bstate) : bstate := mk_bs (k_st st) (k_rev st).

(* ---------- a sequential history ---------- *)

Definition q_step (st : bstate) (q : req) : bstate * resp * list event :=
  match q with
  | QCreate k v => q_create st k v
  | QUpdate k v rev => q_update st k v rev
  | QDelete k rev => q_delete st k rev
  | QGet k rev => (st, q_get st k rev, [])
  | QList a b rev limit => (st, q_list st a b rev limit, [])
  | QCompact rev => let '(st', r) := q_compact st rev in (st', r, [])
  | QCount a b => (st, q_count st a b, [])
  | QStream a b rev => (st, q_stream st a b rev, [])
  | QRestart => (q_restart st, PRestarted, [])
  end.

(* a panic ends the history: the request never returns *)
Fixpoint q_run (st : bstate) (qs : list req) : bstate * list resp * list event :=
  match qs with
  | [] => (st, [], [])
  | q :: rest =>
      let '(st1, r, ev) := q_step st q in
      match r with
      | PPanic => (st1, [r], ev)
      | _ => let '(st2, rs, evs) := q_run st1 rest in (st2, r :: rs, ev ++ evs)
      end
  end.

Definition run_history (init : N) (qs : list req) : store * list resp * list event :=
  let '(st, rs, evs) := q_run (mk_bs (a_init A) init) qs in (a_dump A (k_st st), rs, evs).

End Programs.
