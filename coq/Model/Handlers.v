(* Handler-level model of both front-ends (pkg/server/brain/{read,write,watch}.go,
   pkg/server/etcd/{kv,backendshim,watch}.go) on a leader: which requests are rejected before the
   backend is touched, how many revisions a request allocates, and where the explicit Go panic
   sources sit behind that validation.  Definitions only. *)
From KB Require Export Base.Bytes.
Open Scope N_scope.

(* ---------- requests, reduced to what validation and the panic sources look at ---------- *)

Inductive opkind :=
| OpNil                                   (* RequestOp without a request *)
| OpRange
| OpPut (ignore_lease ignore_value prev_kv : bool)
| OpDeleteRange
| OpTxn.

Record compare := { c_target : N; c_result : N; c_modrev : Z; c_key : bytes }.
(* etcdserverpb: Compare_EQUAL = 0; Compare_VERSION = 0, Compare_CREATE = 1, Compare_MOD = 2, Compare_VALUE = 3 *)
Definition is_mod_equal (c : compare) : bool := (c_target c =? 2) && (c_result c =? 0).
Definition is_version_equal (c : compare) : bool := (c_target c =? 0) && (c_result c =? 0).

Definition is_put (o : opkind) : bool := match o with OpPut _ _ _ => true | _ => false end.
Definition is_range (o : opkind) : bool := match o with OpRange => true | _ => false end.
Definition is_delrange (o : opkind) : bool := match o with OpDeleteRange => true | _ => false end.

Inductive request :=
(* brain (native) API *)
| BCreate (key value : bytes)
| BUpdate (kv_present : bool) (key value : bytes) (rev : N)
| BDelete (key : bytes) (rev : N)
| BCompact (rev : N)
| BGet (key : bytes) (rev : N)
| BRange (key end_ : bytes) (rev : N) (limit : Z)
| BCount (key end_ : bytes)
| BListPartition (key end_ : bytes)
| BRangeStream (key end_ : bytes) (rev : N)
| BWatch (key : bytes) (rev : N)
(* etcd API *)
| ERange (key end_ : bytes) (rev : Z) (limit : Z) (count_only : bool)
| ETxn (cmp : list compare) (succ fail : list opkind)
| EWatch (key : bytes) (start_rev : Z).

Definition empty (b : bytes) : bool := match b with [] => true | _ => false end.

(* kv.go isCreate / isDelete / isUpdate / isCompact, in the order Txn tries them *)
Inductive txn_shape := TCreate (p : opkind) | TDelete | TUpdate | TCompact | TInvalid.

Definition compact_rev_key : bytes := [99;111;109;112;97;99;116;95;114;101;118;95;107;101;121].

Definition txn_shape_of (cmp : list compare) (succ fail : list opkind) : txn_shape :=
  match cmp, succ, fail with
  | [c], [p], [] =>
      if is_mod_equal c && (c_modrev c =? 0)%Z && is_put p then TCreate p
      else TInvalid
  | [], [r; d], [] => if is_range r && is_delrange d then TDelete else TInvalid
  | [c], [s], [f] =>
      if is_mod_equal c && is_range f && is_delrange s then TDelete
      else if is_mod_equal c && is_put s && is_range f then TUpdate
      else if is_version_equal c && is_put s && is_range f && beqb (c_key c) compact_rev_key then TCompact
      else TInvalid
  | _, _, _ => TInvalid
  end.

(* ---------- what a handler does with a request on a leader ---------- *)

Inductive hres :=
| HReject               (* error before the backend is touched; no revision allocated *)
| HRun (alloc : N)      (* reaches the backend; allocates exactly [alloc] revisions *)
| HPanic.               (* an explicit Go panic source is reached *)

(* the backend entry points, with their own explicit panic sources:
   backend.Update dereferences r.Kv (txn.go: key = r.Kv.Key) *)
Definition backend_update (kv_present : bool) : hres := if kv_present then HRun 1 else HPanic.

Definition handle (r : request) : hres :=
  match r with
  | BCreate k v => if empty k || empty v then HReject else HRun 1
  | BUpdate kvp k v _ => if negb kvp || empty k || empty v then HReject else backend_update kvp
  | BDelete k _ => if empty k then HReject else HRun 1
  | BCompact rev => if rev =? 0 then HReject else HRun 0
  | BGet k _ => if empty k then HReject else HRun 0
  | BRange k e _ _ | BCount k e | BListPartition k e | BRangeStream k e _ =>
      if empty k || empty e then HReject else HRun 0
  | BWatch k _ => if empty k then HReject else HRun 0
  | ERange _ _ _ _ _ => HRun 0
  | ETxn cmp succ fail =>
      match txn_shape_of cmp succ fail with
      | TCreate (OpPut il iv pk) => if il || iv || pk then HReject else HRun 1
      | TCreate _ => HPanic                   (* unreachable: isCreate checks GetRequestPut() != nil *)
      | TDelete => HRun 1
      | TUpdate => backend_update true        (* the shim always builds a Kv *)
      | TCompact => HRun 0
      | TInvalid => HReject
      end
  | EWatch _ _ => HRun 0
  end.

(* ---------- what List / Range do with the client's limit ----------
   backend.List (range.go): `limit := r.Limit; if limit > 0 { limit++ }` in int64 arithmetic, then
   scanner.Range: `if limit > 0 { rangeWithLimit(... limit) }` else the unlimited scan; the response
   is cut to r.Limit entries with More = true when the scan returned more than r.Limit.
   So limit = MaxInt64 overflows to MinInt64 and takes the unlimited path, and a negative limit is
   unlimited as well. *)
Definition max_int64 : Z := 9223372036854775807.
Definition min_int64 : Z := (-9223372036854775808)%Z.
Definition wrap64 (z : Z) : Z := (((z + 9223372036854775808) mod 18446744073709551616) - 9223372036854775808)%Z.

Inductive limit_mode :=
| Unlimited
| Limited (n : Z).     (* the scanner's receiver stops after n results (n = client limit + 1) *)

Definition list_limit (client_limit : Z) : limit_mode :=
  let l := if (client_limit >? 0)%Z then wrap64 (client_limit + 1) else client_limit in
  if (l >? 0)%Z then Limited l else Unlimited.

(* capacity a scan asks for before it has seen a single result: rangeWithLimit's receiver starts with a
   nil slice and worker.run's receiver.reset() re-makes it with the *previous attempt's length* (0);
   the unlimited scan forks receivers with make(.., 0, c.limit) where c.limit = 0.  The client's limit
   is never used as an allocation size. *)
Definition scan_prealloc (m : limit_mode) (previous_len : N) : N :=
  match m with
  | Limited _ => previous_len
  | Unlimited => 0
  end.

(* a list response (number of kvs, More) is consistent with the limit *)
Definition list_response_ok (client_limit : Z) (count : Z) (more : bool) : bool :=
  match list_limit client_limit with
  | Unlimited => negb more
  | Limited _ => (count <=? client_limit)%Z && (negb more || (count =? client_limit)%Z)
  end.

(* which requests reach backend.List, and with which limit *)
Definition list_limit_of (r : request) : option Z :=
  match r with
  | BRange k e _ limit => if empty k || empty e then None else Some limit
  | ERange k e rev limit count_only =>
      if empty e || (rev =? 1888)%Z || count_only then None else Some limit
  | _ => None
  end.

(* ---------- the etcd watch server's cancel responses ----------
   watch.go: watcher.Cancel sends a Canceled response (CompactRevision = 0) only when it removes the watch from
   the stream's table itself.  A WatchCancelRequest for a registered watch therefore gets one response; the watch
   goroutine that then notices its cancelled context finds the id gone and sends nothing (fix of C20-F1: it used
   to send a second one).  A pure watch that ends without a client cancel (its stream ends) is cancelled by its
   own goroutine: one response.  A range stream (negative start revision) that ends on its own removes itself
   without a response.  A cancel request for an id that was never created, or has been cancelled already, gets
   no response (as in etcd) and leaves the stream usable. *)
Definition watch_cancel_responses (pure_watch client_cancelled : bool) : N :=
  if client_cancelled then 1 else if pure_watch then 1 else 0.
Definition unknown_cancel_responses : N := 0.

(* ---------- explicit partial operations on request data ----------
   Where the real handlers index, slice or size something with values that come from the request, the
   operation is modelled as partial: it yields PPanic exactly where Go panics (index out of range, slice
   bounds out of range, makeslice: cap out of range). *)
Inductive pres (A : Type) := PVal (a : A) | PPanic.
Arguments PVal {A} a.
Arguments PPanic {A}.

Definition pbind {A B} (x : pres A) (f : A -> pres B) : pres B :=
  match x with PVal a => f a | PPanic => PPanic end.

(* xs[i] *)
Definition index {A} (xs : list A) (i : nat) : pres A :=
  match nth_error xs i with Some a => PVal a | None => PPanic end.

(* Go's a && b: b is evaluated only if a is true *)
Definition pand (a : pres bool) (b : pres bool) : pres bool :=
  match a with PVal true => b | PVal false => PVal false | PPanic => PPanic end.
Definition plen_is {A} (xs : list A) (n : nat) : pres bool := PVal (Nat.eqb (length xs) n).
Definition pon {A} (x : pres A) (f : A -> bool) : pres bool := pbind x (fun a => PVal (f a)).

(* kv.go isCreate: len(Compare)==1 && Compare[0].Target==MOD && Compare[0].Result==EQUAL &&
   Compare[0].GetModRevision()==0 && len(Failure)==0 && len(Success)==1 && Success[0].GetRequestPut()!=nil *)
Definition is_create_p (cmp : list compare) (succ fail : list opkind) : pres bool :=
  pand (plen_is cmp 1)
  (pand (pon (index cmp 0) (fun c => is_mod_equal c && (c_modrev c =? 0)%Z))
  (pand (plen_is fail 0)
  (pand (plen_is succ 1)
        (pon (index succ 0) is_put)))).

(* kv.go isDelete, first form: no compare, no failure, Success = [range; delete-range] *)
Definition is_delete1_p (cmp : list compare) (succ fail : list opkind) : pres bool :=
  pand (plen_is cmp 0)
  (pand (plen_is fail 0)
  (pand (plen_is succ 2)
  (pand (pon (index succ 0) is_range)
        (pon (index succ 1) is_delrange)))).
(* second form: one MOD/EQUAL compare, Failure = [range], Success = [delete-range] *)
Definition is_delete2_p (cmp : list compare) (succ fail : list opkind) : pres bool :=
  pand (plen_is cmp 1)
  (pand (pon (index cmp 0) is_mod_equal)
  (pand (plen_is fail 1)
  (pand (pon (index fail 0) is_range)
  (pand (plen_is succ 1)
        (pon (index succ 0) is_delrange))))).
(* kv.go isUpdate *)
Definition is_update_p (cmp : list compare) (succ fail : list opkind) : pres bool :=
  pand (plen_is cmp 1)
  (pand (pon (index cmp 0) is_mod_equal)
  (pand (plen_is succ 1)
  (pand (pon (index succ 0) is_put)
  (pand (plen_is fail 1)
        (pon (index fail 0) is_range))))).
(* kv.go isCompact *)
Definition is_compact_p (cmp : list compare) (succ fail : list opkind) : pres bool :=
  pand (plen_is cmp 1)
  (pand (pon (index cmp 0) is_version_equal)
  (pand (plen_is succ 1)
  (pand (pon (index succ 0) is_put)
  (pand (plen_is fail 1)
  (pand (pon (index fail 0) is_range)
        (pon (index cmp 0) (fun c => beqb (c_key c) compact_rev_key))))))).

(* RPCServer.Txn tries them in this order; the create branch then uses Success[0] *)
Definition txn_shape_p (cmp : list compare) (succ fail : list opkind) : pres txn_shape :=
  pbind (is_create_p cmp succ fail) (fun c =>
    if c then pbind (index succ 0) (fun p => PVal (TCreate p)) else
  pbind (is_delete1_p cmp succ fail) (fun d1 =>
    if d1 then PVal TDelete else
  pbind (is_delete2_p cmp succ fail) (fun d2 =>
    if d2 then PVal TDelete else
  pbind (is_update_p cmp succ fail) (fun u =>
    if u then PVal TUpdate else
  pbind (is_compact_p cmp succ fail) (fun k =>
    PVal (if k then TCompact else TInvalid)))))).

(* the same recognisers with the length tests left out: what the guards are for *)
Definition is_create_unguarded (cmp : list compare) : pres bool :=
  pon (index cmp 0) (fun c => is_mod_equal c && (c_modrev c =? 0)%Z).

(* make([]T, 0, n) *)
Definition max_cap : Z := 35184372088832.      (* 2^45 elements of 8 bytes: beyond that makeslice refuses on amd64 *)
Definition make_cap (n : Z) : pres Z :=
  if ((0 <=? n) && (n <=? max_cap))%Z then PVal n else PPanic.
(* xs[0:n] for a slice of length len *)
Definition slice_to (len n : Z) : pres Z :=
  if ((0 <=? n) && (n <=? len))%Z then PVal n else PPanic.

(* backend.List + scanner.Range + the response cut, for a directory with [found] matching keys:
     limit' := limit (+1 with int64 wrap-around if limit > 0)
     limit' > 0 : rangeWithLimit: receiver{limit: int(limit')}, reset() = make(.., 0, len(previous result)),
                  the scan stops after limit' results
     otherwise  : unlimited scan, receivers forked with make(.., 0, c.limit) where c.limit = 0
     then `if limit' > 0 && len(kvs) > int(r.Limit) { More = true; kvs = kvs[0:r.Limit] }`
   result: number of kvs returned and More *)
Definition list_exec (limit : Z) (found : Z) : pres (Z * bool) :=
  match list_limit limit with
  | Limited l' =>
      pbind (make_cap 0) (fun _ =>                       (* reset() on the first attempt *)
      let got := Z.min found l' in
      if (got >? limit)%Z
      then pbind (slice_to got limit) (fun n => PVal (n, true))
      else PVal (got, false))
  | Unlimited =>
      pbind (make_cap 0) (fun _ => PVal (found, false))   (* fork(): make(.., 0, 0) *)
  end.

(* the seeded variant of reset(): the buffer pre-sized from the limit *)
Definition list_exec_presized (limit : Z) (found : Z) : pres (Z * bool) :=
  match list_limit limit with
  | Limited l' => pbind (make_cap l') (fun _ => PVal (Z.min found l', false))
  | Unlimited => PVal (found, false)
  end.

(* backend.Update called directly with a nil Kv panics: the guard in the handler is what prevents it *)
Definition handle_unguarded_update (kvp : bool) : hres := backend_update kvp.

(* [handle] with the transaction recognised by explicit indexing: an index out of range is HPanic *)
Definition handle_p (r : request) : hres :=
  match r with
  | ETxn cmp succ fail =>
      match txn_shape_p cmp succ fail with
      | PPanic => HPanic
      | PVal (TCreate (OpPut il iv pk)) => if il || iv || pk then HReject else HRun 1
      | PVal (TCreate _) => HPanic
      | PVal TDelete => HRun 1
      | PVal TUpdate => backend_update true
      | PVal TCompact => HRun 0
      | PVal TInvalid => HReject
      end
  | _ => handle r
  end.
