(* C02 correspondence cases: the schedule cases of C01Cases.v with the revision oracle rev_ok, and
   sequential read cases (sequencer parked, so that stored writes are not yet readable) for the
   header/revision relation of Get and List. *)
From KB Require Export Model.C01Cases.
Local Open Scope N_scope.

Record read_case := {
  rc_cidx0 : bool;
  rc_d0 : N;
  rc_keys : list key;                       (* keys of the case, in raw key order *)
  rc_init : list (key * kstate);
  rc_writes : list (req * resp);            (* issued one after the other while the sequencer is parked *)
  rc_reads : list (rdreq * rdresp)
}.

Inductive c02_case :=
| C2Sched (c : sched_case)
| C2Read (c : read_case)
| C2Tso (ds : list (list N)).
    (* allocator stress on the real tso: per goroutine the revisions Deal() returned, in order, while
       another goroutine keeps calling Commit with revisions ahead of the counter *)

(* ---------- model of a read case (run_writes: C01Cases.v) ---------- *)

Definition kvr3_eqb (a b : key * bytes * N) : bool :=
  (fst (fst a) =? fst (fst b)) && beqb (snd (fst a)) (snd (fst b)) && (snd a =? snd b).

Definition rdresp_eqb (a b : rdresp) : bool :=
  match a, b with
  | RdErr, RdErr => true
  | RdOk h l, RdOk h' l' => (h =? h') && list_eqb kvr3_eqb l l'
  | _, _ => false
  end.

Definition do_read (s : state) (keys : list key) (q : rdreq) : rdresp :=
  match q with
  | RdGet k rev => read_get s k rev
  | RdList rev => read_list s keys rev
  end.

Definition read_check (c : read_case) : bool :=
  match run_writes (rc_cidx0 c) (kinit (rc_d0 c) (store_of (rc_init c))) (rc_writes c) with
  | None => false
  | Some s => forallb (fun qr => rdresp_eqb (do_read s (rc_keys c) (fst qr)) (snd qr)) (rc_reads c)
  end.

(* ---------- rev_ok on a schedule case (implementation side only) ---------- *)

Fixpoint nodupb (l : list N) : bool :=
  match l with
  | [] => true
  | x :: l' => negb (mem_N x l') && nodupb l'
  end.

Definition exact_revs (recs : list rrec) : list N :=
  flat_map (fun r => match resp_exact_rev (rr_resp r) with Some x => [x] | None => [] end) recs.

(* A (earlier in the list of responses) completed before B was invoked *)
Definition precedes (a b : rrec) : bool :=
  Nat.ltb (rr_ret a) (rr_inv b) || (Nat.eqb (rr_ret a) (rr_inv b) && (rr_t a =? rr_t b)).

Fixpoint realtime_ok (recs : list rrec) : bool :=
  match recs with
  | [] => true
  | a :: rest =>
      forallb (fun b =>
                 match resp_exact_rev (rr_resp a), resp_hdr (rr_resp b) with
                 | Some x, Some y => if precedes a b then x <? y else true
                 | _, _ => true
                 end) rest
      && realtime_ok rest
  end.

Definition header_ok (r : resp) : bool :=
  match resp_hdr r, resp_kv r with
  | Some h, Some (_, m) => m <=? h
  | _, _ => true
  end.

Fixpoint increasing_from (lo : N) (l : list N) : bool :=
  match l with
  | [] => true
  | x :: l' => (lo <? x) && increasing_from x l'
  end.

Definition key_monotone (c : sched_case) (recs : list rrec) (k : key) : bool :=
  increasing_from (newest_rev (lookup k_empty k (sc_init c)))
    (flat_map (fun r => match resp_hdr (rr_resp r) with Some h => [h] | None => [] end) (successes k recs)).

Definition rev_ok (c : sched_case) : bool :=
  let recs := case_records c in
  records_complete c recs
  && nodupb (exact_revs recs)
  && forallb (fun x => (sc_d0 c <? x) && (x <? sc_marker c)) (exact_revs recs)
  && realtime_ok recs
  && forallb (fun r => header_ok (rr_resp r)) recs
  && forallb (key_monotone c recs) (case_keys c).

(* ---------- header bound on reads ---------- *)

Definition rd_bound (r : rdresp) : bool :=
  match r with
  | RdErr => true
  | RdOk h kvs => forallb (fun x => snd x <=? h) kvs
  end.

(* finding C02-F1: List with an explicit revision above the revision the node has reached returns
   data newer than its header *)
Definition rd_f1 (q : rdreq) (r : rdresp) : bool :=
  match q, r with
  | RdList rev, RdOk h _ => h <? rev
  | _, _ => false
  end.

Definition read_oracle (c : read_case) : option N :=
  if forallb (fun qr => rd_bound (snd qr)) (rc_reads c) then None
  else if forallb (fun qr => rd_bound (snd qr) || rd_f1 (fst qr) (snd qr)) (rc_reads c) then Some 1
  else Some 0.

(* what every interleaving of the model allows: each goroutine sees strictly increasing revisions *)
Definition tso_check (ds : list (list N)) : bool := forallb (increasing_from 0) ds.
(* the property: moreover no revision is handed out twice *)
Definition tso_ok (ds : list (list N)) : bool := tso_check ds && nodupb (concat ds).

Definition c02_check (c : c02_case) : bool :=
  match c with C2Sched c => sched_check c | C2Read c => read_check c | C2Tso ds => tso_check ds end.

Definition c02_oracle (c : c02_case) : option N :=
  match c with C2Sched c => ok_if (rev_ok c) | C2Read c => read_oracle c | C2Tso ds => ok_if (tso_ok ds) end.
