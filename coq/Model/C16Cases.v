(* Correspondence cases for C16: a history driven through the real etcd.RPCServer (Txn / Range /
   Watch) with what it answered; c16_check replays it on the shim model, c16_oracle on the reference
   etcd interpreter under the property's projection. *)
From KB Require Export Model.Etcd.
Local Open Scope Z_scope.

Inductive step :=
| STxn (t : txn_req) (o : txn_resp) (listing : option (list kv))   (* listing of the history's key space afterwards *)
| STxnNL (t : txn_req) (o : txn_resp)                              (* no listing: a lower revision is still unresolved, or a burst *)
| SRange (r : range_req) (o : range_resp).

Inductive c16_case :=
| C16Hist (base : N) (ns : bytes) (steps : list step)
          (watch : option (list (Z * list wevent)))                 (* a prefix watch opened before the history: (header revision, events) per message; None = no watch was opened *)
          (watch2 : option (Z * list (Z * list wevent)))            (* a second watch from a start revision *)
(* a prefix watch resumed n events behind (one create and n-1 guarded updates of one key, all inside the event cache):
   how many events the stream delivered, and whether they were exactly the writes, in revision order.  The model's
   watch has no channel capacities: shim_watch returns every recorded event from the start revision (C16_watch_prefix) *)
| C16Backlog (n delivered : N) (ordered : bool)
(* racing guarded writes on one key through RPCServer.Txn over the Badger engine: [clients] concurrent create-if-absent
   transactions, then [clients] guarded updates carrying the same expected revision, per round; the numbers of
   Succeeded=true answers of the first round that did not have exactly one winner of each race (1 and 1 when every round
   had).  etcd linearises them: exactly one per compared revision *)
| C16Race (clients rounds : N) (max_create max_update : N).

(* ------------------------------------------------------------------ equality on observations *)

Definition kv_eqb (a b : kv) : bool :=
  beqb (k_key a) (k_key b) && beqb (k_val a) (k_val b) && (k_create a =? k_create b) && (k_mod a =? k_mod b)
  && (k_ver a =? k_ver b) && (k_lease a =? k_lease b).

Definition respop_eqb (a b : respop) : bool :=
  match a, b with
  | RsRange h kvs c m, RsRange h' kvs' c' m' => (h =? h') && list_eqb kv_eqb kvs kvs' && (c =? c') && Bool.eqb m m'
  | RsPut h p, RsPut h' p' => (h =? h') && opt_eqb kv_eqb p p'
  | RsDel h d ps, RsDel h' d' ps' => (h =? h') && (d =? d') && list_eqb kv_eqb ps ps'
  | _, _ => false
  end.

Definition txn_resp_eqb (a b : txn_resp) : bool :=
  match a, b with
  | TErr, TErr => true
  | TOk h s rs, TOk h' s' rs' => (h =? h') && Bool.eqb s s' && list_eqb respop_eqb rs rs'
  | _, _ => false
  end.

Definition range_resp_eqb (a b : range_resp) : bool :=
  match a, b with
  | RErr, RErr => true
  | ROk h kvs c m, ROk h' kvs' c' m' => (h =? h') && list_eqb kv_eqb kvs kvs' && (c =? c') && Bool.eqb m m'
  | _, _ => false
  end.

Definition wevent_eqb (a b : wevent) : bool :=
  match a, b with
  | WEv d k p, WEv d' k' p' => Bool.eqb d d' && kv_eqb k k' && opt_eqb kv_eqb p p'
  end.

(* ------------------------------------------------------------------ check: the shim model *)

Definition ns_range (ns : bytes) : range_req := mkRange ns (prefix_end ns) 0 0 false false.

Definition listing_of_shim (st : bstate) (ns : bytes) : option (list kv) :=
  match shim_range st (ns_range ns) with
  | ROk _ kvs _ _ => Some kvs
  | RErr => None
  end.

Fixpoint check_steps (ns : bytes) (st : bstate) (steps : list step) : bool * bstate :=
  match steps with
  | [] => (true, st)
  | STxn t o l :: rest =>
      let '(st', resp) := shim_txn st t in
      if txn_resp_eqb resp o && opt_eqb (list_eqb kv_eqb) (listing_of_shim st' ns) l
      then check_steps ns st' rest else (false, st')
  | STxnNL t o :: rest =>
      let '(st', resp) := shim_txn st t in
      if txn_resp_eqb resp o then check_steps ns st' rest else (false, st')
  | SRange r o :: rest =>
      if range_resp_eqb (shim_range st r) o then check_steps ns st rest else (false, st)
  end.

Definition batches_events (bs : list (Z * list wevent)) : list wevent := flat_map snd bs.

Definition c16_check (c : c16_case) : bool :=
  match c with
  | C16Backlog n delivered ordered => (delivered =? n)%N && ordered
  | C16Race _ _ mc mu => (mc =? 1)%N && (mu =? 1)%N
  | C16Hist base ns steps w w2 =>
      let '(ok, st) := check_steps ns (b_init base) steps in
      ok
      && match w with
         | None => true                    (* no watch was opened *)
         | Some bs => list_eqb wevent_eqb (batches_events bs) (shim_watch st ns 0)
         end
      && match w2 with
         | None => true
         | Some (start, bs) => list_eqb wevent_eqb (batches_events bs) (shim_watch st ns (u64_of_Z start))
         end
  end.

(* ------------------------------------------------------------------ the property's projection *)

Definition pkv := (bytes * bytes * Z)%type.
Definition pk (x : kv) : pkv := (k_key x, k_val x, k_mod x).
Definition pkv_eqb (a b : pkv) : bool :=
  match a, b with (k, v, m), (k', v', m') => beqb k k' && beqb v v' && (m =? m') end.

Inductive pitem :=
| PRange (kvs : list pkv)        (* what a range operation of the executed branch returned *)
| PPrev (p : option pkv)         (* prev_kv of a put that asked for it *)
| PPrevs (l : list pkv)          (* prev_kvs of a delete that asked for them *)
| PNested
| PMissing                       (* the response the client would read is not there *)
| PSkip.                         (* nothing the client reads *)

Definition proj_op (op : reqop) (r : option respop) : pitem :=
  match op with
  | OpRange _ => match r with Some (RsRange _ kvs _ _) => PRange (map pk kvs) | _ => PMissing end
  | OpPut p =>
      if p_prev_kv p then match r with Some (RsPut _ prev) => PPrev (option_map pk prev) | _ => PMissing end
      else PSkip
  | OpDel d =>
      if d_prev_kv d then match r with Some (RsDel _ _ prevs) => PPrevs (map pk prevs) | _ => PMissing end
      else PSkip
  | OpTxn _ _ _ => match r with Some (RsTxnR _ _ _) => PNested | _ => PMissing end
  end.

Fixpoint proj_ops (ops : list reqop) (rs : list respop) : list pitem :=
  match ops with
  | [] => []
  | op :: ops' =>
      match rs with
      | [] => proj_op op None :: proj_ops ops' []
      | r :: rs' => proj_op op (Some r) :: proj_ops ops' rs'
      end
  end.

Definition proj_txn (t : txn_req) (resp : txn_resp) : option (bool * list pitem) :=
  match resp with
  | TErr => None
  | TOk _ b rs => Some (b, proj_ops (if b then t_succ t else t_fail t) rs)
  end.

Definition pitem_eqb (a b : pitem) : bool :=
  match a, b with
  | PRange x, PRange y => list_eqb pkv_eqb x y
  | PPrev x, PPrev y => opt_eqb pkv_eqb x y
  | PPrevs x, PPrevs y => list_eqb pkv_eqb x y
  | PNested, PNested => true
  | PSkip, PSkip => true
  | _, _ => false                    (* PMissing equals nothing *)
  end.

Definition ptxn_eqb (a b : option (bool * list pitem)) : bool :=
  match a, b with
  | Some (s, l), Some (s', l') => Bool.eqb s s' && list_eqb pitem_eqb l l'
  | _, _ => false
  end.

Definition proj_range (r : range_resp) : option (list pkv * Z * bool) :=
  match r with RErr => None | ROk _ kvs c m => Some (map pk kvs, c, m) end.

Definition proj_event (e : wevent) : bool * pkv * option pkv :=
  match e with WEv d k p => (d, (k_key k, (if d then [] else k_val k), k_mod k), if d then option_map pk p else None) end.

Definition pevent_eqb (a b : bool * pkv * option pkv) : bool :=
  match a, b with (d, k, p), (d', k', p') => Bool.eqb d d' && pkv_eqb k k' && opt_eqb pkv_eqb p p' end.

(* ------------------------------------------------------------------ the supported shapes, exactly *)

Definition plain_get (r : range_req) (k : bytes) : bool :=
  beqb (r_key r) k && beqb (r_end r) [] && (r_rev r =? 0) && negb (r_count_only r) && negb (r_keys_only r).
Definition plain_put (p : put_req) (k : bytes) : bool :=
  beqb (p_key p) k && negb (p_prev_kv p) && negb (p_ign_val p) && negb (p_ign_lease p).
Definition plain_del (d : del_req) (k : bytes) : bool :=
  beqb (d_key d) k && beqb (d_end d) [] && negb (d_prev_kv d).
Definition mod_eq_on (c : compare) (k : bytes) : bool :=
  is_mod_eq c && beqb (c_key c) k && beqb (c_end c) [].

Inductive shape :=
| ShCreate (k v : bytes)                      (* If(mod(k)=0).Then(put k v) *)
| ShUpdate (k v : bytes) (exp : Z)            (* If(mod(k)=exp).Then(put k v).Else(get k) *)
| ShDelete (k : bytes) (exp : Z)              (* If(mod(k)=exp).Then(delete k).Else(get k) *)
| ShDeleteU (k : bytes).                      (* If().Then(get k, delete k) *)

(* the request is exactly one of the Kubernetes shapes *)
Definition canonical (t : txn_req) : option shape :=
  match t_cmp t, t_succ t, t_fail t with
  | [c], [OpPut p], [] =>
      if mod_eq_on c (p_key p) && (get_mod c =? 0) && plain_put p (p_key p) then Some (ShCreate (p_key p) (p_val p)) else None
  | [c], [OpPut p], [OpRange r] =>
      if mod_eq_on c (p_key p) && plain_put p (p_key p) && plain_get r (p_key p) then Some (ShUpdate (p_key p) (p_val p) (get_mod c)) else None
  | [c], [OpDel d], [OpRange r] =>
      if mod_eq_on c (d_key d) && plain_del d (d_key d) && plain_get r (d_key d) then Some (ShDelete (d_key d) (get_mod c)) else None
  | [], [OpRange r; OpDel d], [] =>
      if plain_get r (d_key d) && plain_del d (d_key d) then Some (ShDeleteU (d_key d)) else None
  | _, _, _ => None
  end.

Definition recognised (t : txn_req) : bool :=
  match isCreate t, isDelete t, isUpdate t with
  | None, None, None => false
  | _, _, _ => true
  end.

Definition is_some {A} (o : option A) : bool := match o with Some _ => true | None => false end.

Fixpoint op_has_reserved (op : reqop) : bool :=
  match op with
  | OpPut p => beqb (p_val p) tombstone
  | OpTxn _ s f => existsb op_has_reserved s || existsb op_has_reserved f
  | _ => false
  end.
Definition txn_has_reserved (t : txn_req) : bool :=
  existsb op_has_reserved (t_succ t) || existsb op_has_reserved (t_fail t).

(* supported reads: a point read, or a range with key < end; at the latest or a past revision *)
Definition read_supported (cur : Z) (r : range_req) : bool :=
  negb (beqb (r_key r) []) && negb (r_keys_only r) && (r_rev r <=? cur) && (0 <=? r_rev r)
  && negb (r_rev r =? partition_magic)
  && match r_end r with
     | [] => negb (r_count_only r)
     | e => bltb (r_key r) e && negb (beqb e [0%N])
            && (negb (r_count_only r) || ((r_rev r =? 0) && (r_limit r =? 0)))
     end.

(* ------------------------------------------------------------------ oracle: the etcd interpreter *)

(* finding signatures (known_findings.d/C16.json) *)
Definition F_unguarded_missing : N := 1%N.
Definition F_guarded_zero : N := 2%N.
Definition F_count_limit : N := 3%N.
Definition F_recogniser : N := 4%N.
Definition F_compact : N := 5%N.
Definition F_reserved : N := 6%N.
Definition F_partition_magic : N := 7%N.
Definition F_count_revision : N := 9%N.

Record ostate := mkO {
  o_e : estate;
  o_seen : Z;               (* largest revision the client has been shown *)
  o_reserved : bool;        (* a reserved value has been written *)
  o_codes : list N;         (* divergences so far, oldest first *)
  o_stop : bool             (* the two stores have diverged: later steps are not judged *)
}.

Definition listing_of_etcd (s : estate) (ns : bytes) : list pkv :=
  map pk (e_range (e_cur s) ns (prefix_end ns)).

Definition shape_exp (sh : shape) : Z :=
  match sh with ShUpdate _ _ e => e | ShDelete _ e => e | _ => 0 end.
Definition shape_key (sh : shape) : bytes :=
  match sh with ShCreate k _ => k | ShUpdate k _ _ => k | ShDelete k _ => k | ShDeleteU k => k end.

Definition classify_txn (o : ostate) (t : txn_req) (obs : txn_resp) : N :=
  if o_reserved o || txn_has_reserved t then F_reserved
  else if recognised t then
    match canonical t with
    | None => F_recogniser
    | Some (ShDeleteU k) =>
        match e_find k (e_cur (o_e o)), obs with
        | None, TOk _ false _ => F_unguarded_missing
        | _, _ => 0%N
        end
    | Some (ShDelete k 0) =>
        match e_find k (e_cur (o_e o)), obs with
        | Some _, TOk _ true _ => F_guarded_zero
        | None, TOk _ false _ => F_unguarded_missing      (* the guard "absent" holds, etcd deletes nothing and succeeds *)
        | _, _ => 0%N
        end
    | Some _ => 0%N
    end
  else if isCompact t then F_compact
  else 0%N.

Definition hdr_of (obs : txn_resp) : Z := match obs with TOk h _ _ => h | TErr => 0 end.

Definition oracle_txn (ns : bytes) (o : ostate) (t : txn_req) (obs : txn_resp) (listing : option (list kv)) : ostate :=
  let se := o_e o in
  let nr := if e_now se <? hdr_of obs then hdr_of obs else e_now se + 1 in
  let '(se', eresp) := etcd_txn se nr t in
  let seen := Z.max (o_seen o) (hdr_of obs) in
  let res := o_reserved o || txn_has_reserved t in
  let tk := fun x => e_tick x seen in
  match listing with
  | None => mkO (tk se') seen res (o_codes o ++ [0%N]) true
  | Some l =>
      let same_state := list_eqb pkv_eqb (map pk l) (listing_of_etcd se' ns) in
      let unchanged := list_eqb pkv_eqb (map pk l) (listing_of_etcd se ns) in
      match obs with
      | TErr =>
          (* rejected: fine when etcd rejects it too, or when the store is unchanged and the request is
             not a supported shape with an expected revision the client can have seen *)
          let in_scope := match canonical t with
                          | Some sh => (0 <=? shape_exp sh) && (shape_exp sh <=? o_seen o) && negb res
                          | None => false
                          end in
          match eresp with
          | TErr => if unchanged then mkO (tk se) seen res (o_codes o) false
                    else mkO (tk se) seen res (o_codes o ++ [0%N]) true
          | TOk _ _ _ =>
              if unchanged && negb in_scope then mkO (tk se) seen res (o_codes o) false
              else mkO (tk se) seen res (o_codes o ++ [0%N]) true
          end
      | TOk _ _ _ =>
          if ptxn_eqb (proj_txn t obs) (proj_txn t eresp) && same_state then mkO (tk se') seen res (o_codes o) false
          else mkO (tk se') seen res (o_codes o ++ [classify_txn o t obs]) (negb same_state)
      end
  end.

(* a transaction without a listing: responses are compared; the stores are compared by the next listing *)
Definition oracle_txn_nl (o : ostate) (t : txn_req) (obs : txn_resp) : ostate :=
  let se := o_e o in
  let nr := if e_now se <? hdr_of obs then hdr_of obs else e_now se + 1 in
  let '(se', eresp) := etcd_txn se nr t in
  let seen := Z.max (o_seen o) (hdr_of obs) in
  let res := o_reserved o || txn_has_reserved t in
  match obs, eresp with
  | TErr, TErr => mkO (e_tick se seen) seen res (o_codes o) false
  | TOk _ _ _, TOk _ _ _ =>
      if ptxn_eqb (proj_txn t obs) (proj_txn t eresp) then mkO (e_tick se' seen) seen res (o_codes o) false
      else mkO (e_tick se' seen) seen res (o_codes o ++ [classify_txn o t obs]) true
  | _, _ => mkO (e_tick se seen) seen res (o_codes o ++ [0%N]) true
  end.

Definition prange_eqb (a b : option (list pkv * Z * bool)) : bool :=
  match a, b with
  | Some (k, c, m), Some (k', c', m') => list_eqb pkv_eqb k k' && (c =? c') && Bool.eqb m m'
  | _, _ => false
  end.

(* a count carrying a past revision (F9: the Count path ignores the revision and counts the latest store) *)
Definition count_at_rev (r : range_req) : bool :=
  r_count_only r && (0 <? r_rev r) && negb (beqb (r_end r) []) && negb (r_rev r =? partition_magic).

Definition classify_range (o : ostate) (r : range_req) (obs eresp : range_resp) : N :=
  if o_reserved o then F_reserved
  else if (r_rev r =? partition_magic) && negb (beqb (r_end r) []) then F_partition_magic
  else
    match obs, eresp with
    | ROk _ kvs c m, ROk _ kvs' c' m' =>
        if count_at_rev r then
          (match kvs with [] => if c =? lenZ (e_range (e_cur (o_e o)) (r_key r) (r_end r)) then F_count_revision else 0%N | _ => 0%N end)
        else if (0 <? r_limit r) && list_eqb pkv_eqb (map pk kvs) (map pk kvs') && Bool.eqb m m'
           && (c =? r_limit r + 1) && (r_limit r + 1 <? c')
        then F_count_limit else 0%N
    | _, _ => 0%N
    end.

Definition oracle_range (o : ostate) (r : range_req) (obs : range_resp) : ostate :=
  let eresp := etcd_range (o_e o) r in
  let seen := match obs with ROk h _ _ _ => Z.max (o_seen o) h | RErr => o_seen o end in
  let se := e_tick (o_e o) seen in
  let o' := mkO se seen (o_reserved o) (o_codes o) (o_stop o) in
  if prange_eqb (proj_range obs) (proj_range eresp) then o'
  else if negb (read_supported (o_seen o) r) && negb ((r_rev r =? partition_magic) && negb (beqb (r_end r) []))
          && negb (count_at_rev r && (r_rev r <=? o_seen o)) then
    (* outside the supported reads: an error is an acceptable answer, data is not *)
    match obs with
    | RErr => o'
    | ROk _ _ _ _ => mkO se seen (o_reserved o) (o_codes o ++ [0%N]) (o_stop o)
    end
  else mkO se seen (o_reserved o) (o_codes o ++ [classify_range o r obs eresp]) (o_stop o).

Fixpoint oracle_steps (ns : bytes) (o : ostate) (steps : list step) : ostate :=
  match steps with
  | [] => o
  | s :: rest =>
      if o_stop o then o
      else match s with
           | STxn t obs l => oracle_steps ns (oracle_txn ns o t obs l) rest
           | STxnNL t obs => oracle_steps ns (oracle_txn_nl o t obs) rest
           | SRange r obs => oracle_steps ns (oracle_range o r obs) rest
           end
  end.

(* watch: kinds, kv, PrevKv on delete — against the interpreter's event log; and every message's
   header revision is the mod revision of its last event *)
Definition header_ok (b : Z * list wevent) : bool :=
  match rev (snd b) with
  | [] => true
  | e :: _ => fst b =? k_mod (ev_kv e)
  end.

Definition oracle_watch (o : ostate) (ns : bytes) (start : Z) (bs : list (Z * list wevent)) : list N :=
  if o_stop o || negb (match o_codes o with [] => true | _ => false end) then []   (* diverged histories are judged by their steps *)
  else if forallb header_ok bs
          && list_eqb pevent_eqb (map proj_event (batches_events bs))
                      (map proj_event (etcd_watch (o_e o) ns (prefix_end ns) start))
       then [] else [if o_reserved o then F_reserved else 0%N].

Definition summarise (codes : list N) : option N :=
  if existsb (N.eqb 0) codes then Some 0%N
  else match codes with [] => None | c :: _ => Some c end.

Definition c16_oracle (c : c16_case) : option N :=
  match c with
  | C16Backlog n delivered ordered => ok_if ((delivered =? n)%N && ordered)
  | C16Race _ _ mc mu => ok_if ((mc =? 1)%N && (mu =? 1)%N)
  | C16Hist base ns steps w w2 =>
      let o := oracle_steps ns (mkO (e_init (Z.of_N base)) (Z.of_N base) false [] false) steps in
      summarise (o_codes o
                 ++ match w with None => [] | Some bs => oracle_watch o ns 0 bs end
                 ++ match w2 with None => [] | Some (start, bs) => oracle_watch o ns start bs end)
  end.

(* ------------------------------------------------------------------ validity: the cases the oracle's soundness theorem covers *)

(* A history is valid when every request is in the scope of C16_supported as evaluated on the shim model's own run: the
   four shapes with an expected revision between zero and the current one (a guarded delete: above zero; an unguarded
   delete: of a live key), no reserved value, well-formed non-empty keys; point and range reads at a revision from 0 to
   the current one (not 1888 with a range end, not more than limit+1 keys under a limit), counts at the latest revision;
   revisions below 2^63. *)
Definition z63 : Z := 9223372036854775808.
Definition boundedb (st : bstate) : bool := Z.of_N (b_rev st) + 1 <? z63.
Definition keyb (k : bytes) : bool := negb (beqb k []) && wf_bytesb k.

Definition txn_validb (st : bstate) (t : txn_req) : bool :=
  negb (txn_has_reserved t)
  && match canonical t with
     | Some (ShCreate k _) => keyb k
     | Some (ShUpdate k _ e) => keyb k && (0 <=? e) && (e <=? Z.of_N (b_rev st))
     | Some (ShDelete k e) => keyb k && (0 <? e) && (e <=? Z.of_N (b_rev st))
     | Some (ShDeleteU k) => keyb k && match b_get (b_kv st) k 0 with GFound _ _ => true | GNotFound => false end
     | None => false
     end.

Definition read_rev (st : bstate) (z : Z) : N := if (u64_of_Z z =? 0)%N then b_rev st else u64_of_Z z.

Definition read_validb (st : bstate) (r : range_req) : bool :=
  negb (r_keys_only r) && negb (beqb (r_key r) []) && (0 <=? r_rev r) && (r_rev r <=? Z.of_N (b_rev st))
  && match r_end r with
     | [] => negb (r_count_only r)
     | e => negb (beqb e [0%N])
            && if r_count_only r
               then (r_rev r =? 0) && (r_limit r =? 0) && (lenZ (b_scan (b_kv st) (r_key r) e (b_rev st)) <? z63)
               else bltb (r_key r) e && negb (r_rev r =? partition_magic) && (r_limit r + 1 <? z63)
                    && ((r_limit r <=? 0) || (lenZ (b_scan (b_kv st) (r_key r) e (read_rev st (r_rev r))) <=? r_limit r + 1))
     end.

Fixpoint steps_validb (st : bstate) (steps : list step) : bool :=
  match steps with
  | [] => boundedb st
  | STxn t _ _ :: rest => boundedb st && txn_validb st t && steps_validb (fst (shim_txn st t)) rest
  | STxnNL t _ :: rest => boundedb st && txn_validb st t && steps_validb (fst (shim_txn st t)) rest
  | SRange r _ :: rest => boundedb st && read_validb st r && steps_validb st rest
  end.

Definition ns_validb (ns : bytes) : bool :=
  keyb ns && is_some (prefix_end_opt ns) && bltb ns (prefix_end ns)
  && negb (beqb (prefix_end ns) []) && negb (beqb (prefix_end ns) [0%N]).

(* a transaction the shim rejects with nothing stored: not one of the shapes, or a shape with an expected revision outside
   [0, current]; no reserved value.  The oracle accepts a rejection when the listing is unchanged. *)
Definition rej_validb (st : bstate) (t : txn_req) : bool :=
  negb (txn_has_reserved t)
  && match snd (shim_txn st t) with TErr => true | _ => false end
  && match canonical t with
     | None => true
     | Some sh => (shape_exp sh <? 0) || (Z.of_N (b_rev st) <? shape_exp sh)
     end.

(* a valid prefix, then one rejected transaction (with its listing) that ends the history *)
Fixpoint steps_validb_rej (st : bstate) (steps : list step) : bool :=
  match steps with
  | [] => false
  | STxn t _ _ :: rest =>
      match rest with
      | [] => boundedb st && boundedb (fst (shim_txn st t)) && rej_validb st t
      | _ :: _ => boundedb st && txn_validb st t && steps_validb_rej (fst (shim_txn st t)) rest
      end
  | STxnNL t _ :: rest => boundedb st && txn_validb st t && steps_validb_rej (fst (shim_txn st t)) rest
  | SRange r _ :: rest => boundedb st && read_validb st r && steps_validb_rej st rest
  end.

(* a valid prefix, then one arbitrary structurally valid transaction (with its listing) that ends the history: whatever
   it is — one of the shapes in or out of scope, a request a recogniser takes for one, the compaction transaction, a
   reserved value, something no recogniser accepts — the oracle's verdict is "agrees" or the code of a listed finding *)
Definition fields_okb (t : txn_req) : bool :=
  match canonical t with
  | Some (ShUpdate _ _ e) | Some (ShDelete _ e) => (- z63 <=? e) && (e <? z63)
  | _ => true
  end.
Definition fin_validb (t : txn_req) : bool := txn_wf t && fields_okb t.

Fixpoint steps_validb_fin (st : bstate) (steps : list step) : bool :=
  match steps with
  | [] => false
  | STxn t _ _ :: rest =>
      match rest with
      | [] => boundedb st && boundedb (fst (shim_txn st t)) && fin_validb t
      | _ :: _ => boundedb st && txn_validb st t && steps_validb_fin (fst (shim_txn st t)) rest
      end
  | STxnNL t _ :: rest => boundedb st && txn_validb st t && steps_validb_fin (fst (shim_txn st t)) rest
  | SRange r _ :: rest => boundedb st && read_validb st r && steps_validb_fin st rest
  end.

(* full strength: every request in scope, or a valid prefix closed by a rejection *)
Definition c16_strongb (c : c16_case) : bool :=
  match c with
  | C16Hist base ns steps w w2 =>
      ns_validb ns
      && ((steps_validb (b_init base) steps
           && match w2 with Some (start, _) => (0 <=? start) && (start <? z63) | None => true end)
          || (steps_validb_rej (b_init base) steps
              && match w with None => true | _ => false end && match w2 with None => true | _ => false end))
  | _ => true
  end.

(* valid: full strength, or a valid prefix closed by one arbitrary structurally valid transaction *)
Definition c16_validb (c : c16_case) : bool :=
  c16_strongb c
  || match c with
     | C16Hist base ns steps w w2 =>
         ns_validb ns && steps_validb_fin (b_init base) steps
         && match w with None => true | _ => false end && match w2 with None => true | _ => false end
     | _ => false
     end.

(* the codes of the findings a single closing transaction can show *)
Definition listed_txn_codes : list N := [F_unguarded_missing; F_guarded_zero; F_recogniser; F_compact; F_reserved].

(* the shim sends one response per batch whose header revision is the mod revision of its last event *)
Definition c16_headersb (c : c16_case) : bool :=
  match c with
  | C16Hist _ _ _ w w2 =>
      match w with Some bs => forallb header_ok bs | None => true end
      && match w2 with Some (_, bs) => forallb header_ok bs | None => true end
  | _ => true
  end.

(* what the driver emits: the case with its claim of validity.  A claimed case that is not valid fails the check, so the
   driver's count of unclaimed cases (stats extra.invalid_cases) bounds the cases outside the soundness theorem. *)
Inductive c16_vcase := V (claimed : bool) (c : c16_case).
Definition c16_checkv (v : c16_vcase) : bool :=
  match v with V claimed c => (if claimed then c16_validb c && c16_headersb c else true) && c16_check c end.
Definition c16_oraclev (v : c16_vcase) : option N := match v with V _ c => c16_oracle c end.

(* the shim's sender (backendshim.go Watch loop): a batch of events goes out as one message whose header revision is the
   mod revision of its last event; how the events are cut into batches depends on timing, any cut may occur *)
Definition send_batch (b : list wevent) : Z * list wevent :=
  (match rev b with e :: _ => k_mod (ev_kv e) | [] => 0 end, b).
Definition send_batches (cut : list (list wevent)) : list (Z * list wevent) := map send_batch cut.
