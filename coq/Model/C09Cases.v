(* Correspondence cases for C09: the driver's script language (macro steps, each a fixed sequence of
   RetrySys labels), what the driver observed on the real backend, the check (model = observation)
   and the oracle (the property on the implementation's own observation). Definitions only. *)
From KB Require Export Base.Cases Model.RetrySys.
Local Open Scope N_scope.

(* ---------- script ---------- *)
Inductive dstep :=
| DWrite (op : wop) (envs : list env) (gerr hold : bool)   (* a client write run to completion *)
| DTick (d : N)
| DRetry (e : env) (gerr : bool)     (* exactly one call of asyncFifoRetryImpl.retry *)
| DRetryGet (gerr : bool)            (* one call of retry, parked before its BeginBatchWrite *)
| DRetryFinish (e : env)             (* the parked call runs to its end *)
| DCompact (r : N)
| DList
| DRelease.                          (* the sequencer parked on a held unknown event continues *)

Record mstate := { m_s : state; m_held : option N; m_tid : N }.

(* ---------- running one request to completion ---------- *)
Definition pc_of (s : state) (t : N) : option (wop * pc) :=
  match get_thread t (s_threads s) with Some th => Some (t_op th, t_pc th) | None => None end.

Fixpoint run_thread (fuel : nat) (t : N) (envs : list env) (gerr : bool) (s : state) : state :=
  match fuel with
  | O => s
  | S fuel' =>
      match pc_of s t with
      | None => s
      | Some (op, p) =>
          match p with
          | PDone _ => s
          | PCommit _ _ _ =>
              match envs with
              | e :: envs' => run_thread fuel' t envs' gerr (step s (LThread t e))
              | [] => run_thread fuel' t [] gerr (step s (LThread t EnvOk))
              end
          | PStart =>
              match op with
              | ODelete _ _ => run_thread fuel' t envs false (step s (LThread t (if gerr then EnvError else EnvOk)))
              | _ => run_thread fuel' t envs gerr (step s (LThread t EnvOk))
              end
          | PReread _ => run_thread fuel' t envs false (step s (LThread t (if gerr then EnvError else EnvOk)))
          | _ => run_thread fuel' t envs gerr (step s (LThread t EnvOk))
          end
      end
  end.

(* the sequencer consumes what it can; it stops on the held unknown event *)
Fixpoint settle (fuel : nat) (held : option N) (s : state) : state :=
  match fuel with
  | O => s
  | S fuel' =>
      match s_seq s with
      | SeqIdle => match s_slots s (s_committed s + 1) with
                   | None => s
                   | Some _ => settle fuel' held (step s LSeq)
                   end
      | SeqHold ev => match held with
                      | Some r => if r =? e_rev ev then s else settle fuel' held (step s LSeq)
                      | None => settle fuel' held (step s LSeq)
                      end
      | SeqMid _ => settle fuel' held (step s LSeq)
      end
  end.

Definition retry_env (s : state) (e : env) (gerr : bool) : env :=
  match s_retry s with
  | RGet _ => if gerr then EnvError else EnvOk
  | RCommit _ _ _ => e
  | _ => EnvOk
  end.

(* one call of retry(): micro-steps until the loop is back at its top *)
Fixpoint run_retry (fuel : nat) (e : env) (gerr : bool) (s : state) : state :=
  match fuel with
  | O => s
  | S fuel' =>
      let s' := step s (LRetry (retry_env s e gerr)) in
      match s_retry s' with
      | RIdle => s'
      | _ => run_retry fuel' e gerr s'
      end
  end.

(* one call of retry() up to BeginBatchWrite (revision allocated), or to its end if it never gets there *)
Fixpoint run_retry_get (fuel : nat) (gerr : bool) (s : state) : state :=
  match fuel with
  | O => s
  | S fuel' =>
      let s' := step s (LRetry (retry_env s EnvOk gerr)) in
      match s_retry s' with
      | RIdle => s'
      | RCommit _ _ _ => s'
      | _ => run_retry_get fuel' gerr s'
      end
  end.

Definition seq_fuel : nat := 64.

(* ---------- observations ---------- *)
Definition keys4 : list key := [0; 1; 2; 3].

Definition snap_list (s : state) (R : N) : list (key * value * N) :=
  flat_map (fun k => match snap s R k with Some (v, r) => [(k, v, r)] | None => [] end) keys4.

Inductive dobs :=
| OResp (r : resp) (unk : bool)      (* unk: one of the request's commits was answered "outcome unknown" *)
| ORetry (st : rstate)
| OListed (hdr : N) (l : list (key * value * N))
| ONone.
Record obs := { o_d : dobs; o_committed : N; o_queue : N }.

Definition evobs := (verb * key * value * N * N)%type.   (* verb, key, value, event revision, Kv.Revision *)
Definition ev_obs (ev : wevent) : evobs :=
  (e_verb ev, e_key ev, e_val ev, e_rev ev, match e_verb ev with VDelete => e_prev ev | _ => e_rev ev end).

Definition resp_of (s : state) (t : N) : dobs :=
  match get_thread t (s_threads s) with
  | Some th => match t_pc th with PDone r => OResp r (t_unk th) | _ => ONone end
  | None => ONone
  end.

Definition mk_obs (d : dobs) (s : state) : obs :=
  {| o_d := d; o_committed := s_committed s; o_queue := N.of_nat (length (s_queue s)) |}.

Definition is_unc_resp (d : dobs) : bool := match d with OResp (RErr true) _ => true | _ => false end.

Definition dstep_run (m : mstate) (d : dstep) : mstate * obs :=
  let s := m_s m in
  let t := m_tid m in
  match d with
  | DWrite op envs gerr hold =>
      let s1 := run_thread 12 t envs gerr (step s (LInvoke t op)) in
      let ob := resp_of s1 t in
      let held := if hold && is_unc_resp ob then match m_held m with None => Some (s_dealt s1) | h => h end else m_held m in
      let s2 := settle seq_fuel held s1 in
      ({| m_s := s2; m_held := held; m_tid := t + 1 |}, mk_obs ob s2)
  | DTick d =>
      let s1 := step s (LTick d) in
      ({| m_s := s1; m_held := m_held m; m_tid := t |}, mk_obs ONone s1)
  | DRetry e gerr =>
      let s1 := run_retry 8 e gerr s in
      let s2 := settle seq_fuel (m_held m) s1 in
      ({| m_s := s2; m_held := m_held m; m_tid := t |}, mk_obs (ORetry (s_rlast s1)) s2)
  | DRetryGet gerr =>
      let s1 := run_retry_get 8 gerr s in
      let s2 := settle seq_fuel (m_held m) s1 in
      let st := match s_retry s1 with RCommit _ _ _ => RSParked | _ => s_rlast s1 end in
      ({| m_s := s2; m_held := m_held m; m_tid := t |}, mk_obs (ORetry st) s2)
  | DRetryFinish e =>
      match s_retry s with
      | RCommit _ _ _ =>
          let s1 := run_retry 8 e false s in
          let s2 := settle seq_fuel (m_held m) s1 in
          ({| m_s := s2; m_held := m_held m; m_tid := t |}, mk_obs (ORetry (s_rlast s1)) s2)
      | _ => (m, mk_obs (ORetry RSIdle) s)
      end
  | DCompact r =>
      let s1 := run_thread 4 t [] false (step s (LInvoke t (OCompact r))) in
      let s2 := settle seq_fuel (m_held m) s1 in
      ({| m_s := s2; m_held := m_held m; m_tid := t + 1 |}, mk_obs (resp_of s1 t) s2)
  | DList =>
      (m, mk_obs (OListed (s_committed s) (snap_list s (s_committed s))) s)
  | DRelease =>
      let s1 := settle seq_fuel None s in
      ({| m_s := s1; m_held := None; m_tid := t |}, mk_obs ONone s1)
  end.

Fixpoint script_run (m : mstate) (ds : list dstep) : mstate * list obs :=
  match ds with
  | [] => (m, [])
  | d :: ds' =>
      let '(m1, o) := dstep_run m d in
      let '(m2, os) := script_run m1 ds' in
      (m2, o :: os)
  end.

Definition r0 : N := 10.
Definition minit : mstate := {| m_s := init_state r0; m_held := None; m_tid := 0 |}.

Record c09_case := { c_script : list dstep; c_obs : list obs; c_events : list evobs }.

(* ---------- equality on observations ---------- *)
Definition kvo_eqb (a b : option (value * N)) : bool :=
  opt_eqb (fun x y => beqb (fst x) (fst y) && (snd x =? snd y)) a b.
Definition resp_eqb (a b : resp) : bool :=
  match a, b with
  | ROk h k, ROk h' k' => (h =? h') && kvo_eqb k k'
  | RCond h k, RCond h' k' => (h =? h') && kvo_eqb k k'
  | RErr u, RErr u' => Bool.eqb u u'
  | RCompacted h, RCompacted h' => h =? h'
  | _, _ => false
  end.
Definition rstate_eqb (a b : rstate) : bool :=
  match a, b with
  | RSIdle, RSIdle | RSFailedGet, RSFailedGet | RSUnnecessary, RSUnnecessary | RSSuccess, RSSuccess
  | RSFailedPut, RSFailedPut | RSUnknownPut, RSUnknownPut | RSParked, RSParked => true
  | _, _ => false
  end.
Definition kvr_eqb (a b : key * value * N) : bool :=
  (fst (fst a) =? fst (fst b)) && beqb (snd (fst a)) (snd (fst b)) && (snd a =? snd b).
Definition dobs_eqb (a b : dobs) : bool :=
  match a, b with
  | OResp r u, OResp r' u' => resp_eqb r r' && Bool.eqb u u'
  | ORetry s, ORetry s' => rstate_eqb s s'
  | OListed h l, OListed h' l' => (h =? h') && list_eqb kvr_eqb l l'
  | ONone, ONone => true
  | _, _ => false
  end.
Definition obs_eqb (a b : obs) : bool :=
  dobs_eqb (o_d a) (o_d b) && (o_committed a =? o_committed b) && (o_queue a =? o_queue b).
Definition verb_eqb (a b : verb) : bool :=
  match a, b with VCreate, VCreate | VPut, VPut | VDelete, VDelete => true | _, _ => false end.
Definition evobs_eqb (a b : evobs) : bool :=
  let '(v, k, x, r, p) := a in
  let '(v', k', x', r', p') := b in
  verb_eqb v v' && (k =? k') && beqb x x' && (r =? r') && (p =? p').

Definition model_obs (c : c09_case) : list obs * list evobs :=
  let '(m, os) := script_run minit (c_script c) in
  (os, map ev_obs (rev (s_events (m_s m)))).

(* c09_check (model = observation, plus the bookkeeping link) is defined at the end of the file *)

(* ---------- the oracle: C09 on the implementation's own observation ---------- *)
Definition env_is_unk (e : env) : bool := match e with EnvUnknown _ _ => true | _ => false end.
Definition env_ocas (e : env) : bool := match e with EnvUnknown _ true => true | _ => false end.
(* an environment choice under which a commit whose condition holds takes effect *)
Definition env_effective (e : env) : bool :=
  match e with EnvOk => true | EnvUnknown true _ => true | _ => false end.

Definition op_value (op : wop) : option value :=
  match op with OCreate _ v => Some v | OUpdate _ v _ => Some v | _ => None end.
Definition op_is_write (op : wop) : bool := match op with OCompact _ => false | _ => true end.

(* outside the stated assumptions: an unknown-outcome error whose origin is a compare failure, or a client
   value equal to the deletion marker (the latter is C03's finding) *)
Definition step_outside (d : dstep) : bool :=
  match d with
  | DWrite op envs _ _ =>
      existsb env_ocas envs || match op_value op with Some v => is_tomb v | None => false end
  | DRetry e _ | DRetryFinish e => env_ocas e
  | _ => false
  end.

(* (1) error class: an unknown outcome is reported as an RPC error carrying the unknown-outcome class *)
Definition class_ok (o : obs) : bool :=
  match o_d o with
  | OResp r true => match r with RErr true => true | _ => false end
  | _ => true
  end.

(* (2),(3) bookkeeping over the observation: revisions allocated so far, the unresolved unknown revisions in increasing
   order (the retry queue is FIFO in revision order and the sequencer feeds it in revision order), the revision of a
   repair write parked before its commit *)
Record book := { bk_dealt : N; bk_unres : list N; bk_parked : bool; bk_prev : N; bk_ok : bool }.

Fixpoint insert_sorted (x : N) (l : list N) : list N :=
  match l with
  | [] => [x]
  | a :: l' => if x <? a then x :: l else a :: insert_sorted x l'
  end.

Definition book_step (b : book) (x : dstep * obs) : book :=
  let '(d, o) := x in
  match d, o_d o with
  | DWrite _ _ _ _, OResp r _ =>
      let rev := bk_dealt b + 1 in
      {| bk_dealt := rev; bk_unres := (match r with RErr true => insert_sorted rev (bk_unres b) | _ => bk_unres b end);
         bk_parked := bk_parked b; bk_prev := bk_prev b; bk_ok := bk_ok b |}
  | DCompact _, OResp (RCompacted h) _ =>
      {| bk_dealt := bk_dealt b; bk_unres := bk_unres b; bk_parked := bk_parked b; bk_prev := bk_prev b;
         bk_ok := bk_ok b && forallb (fun r => h <? r) (bk_unres b) && (h <=? o_committed o) |}
  | (DRetry _ _ | DRetryGet _ | DRetryFinish _), ORetry st =>
      (* the revision this iteration's rewrite allocated: the parked one, or a fresh one *)
      let alloc := if bk_parked b then bk_prev b else bk_dealt b + 1 in
      let dealt' := if bk_parked b then bk_dealt b else bk_dealt b + 1 in
      match st with
      | RSParked => {| bk_dealt := bk_dealt b + 1; bk_unres := bk_unres b; bk_parked := true; bk_prev := bk_dealt b + 1; bk_ok := bk_ok b |}
      | RSSuccess =>
          {| bk_dealt := dealt'; bk_unres := pop_head (bk_unres b); bk_parked := false; bk_prev := bk_prev b; bk_ok := bk_ok b |}
      | RSFailedPut =>
          (* the node is dropped only when the rewrite lost a compare (EnvOk with a failed condition, or an engine abort);
             after a definite failure of another kind it stays at the head *)
          let keep := match d with DRetry EnvError _ | DRetryFinish EnvError => true | _ => false end in
          {| bk_dealt := dealt'; bk_unres := (if keep then bk_unres b else pop_head (bk_unres b)); bk_parked := false;
             bk_prev := bk_prev b; bk_ok := bk_ok b |}
      | RSUnknownPut =>
          (* the node stays, and the event of the attempt joins the unresolved ones *)
          {| bk_dealt := dealt'; bk_unres := insert_sorted alloc (bk_unres b); bk_parked := false; bk_prev := bk_prev b; bk_ok := bk_ok b |}
      | RSUnnecessary =>
          {| bk_dealt := bk_dealt b; bk_unres := pop_head (bk_unres b); bk_parked := false; bk_prev := bk_prev b; bk_ok := bk_ok b |}
      | _ => b
      end
  | _, _ => b
  end.

Definition book_of (c : c09_case) : book :=
  fold_left book_step (combine (c_script c) (c_obs c))
            {| bk_dealt := r0; bk_unres := []; bk_parked := false; bk_prev := 0; bk_ok := true |}.

Definition last_obs (c : c09_case) : option (dstep * obs) :=
  match rev (combine (c_script c) (c_obs c)) with x :: _ => Some x | [] => None end.

Definition ev_of_obs (x : evobs) : wevent :=
  let '(v, k, val, r, p) := x in
  {| e_rev := r; e_prev := p; e_verb := v; e_key := k; e_val := val; e_valid := true; e_unc := false |}.

Fixpoint lookup_kv (k : key) (l : list (key * value * N)) : option (value * N) :=
  match l with
  | [] => None
  | (k', v, r) :: l' => if k' =? k then Some (v, r) else lookup_kv k l'
  end.

(* (5) convergence: at every List taken in a drained state (nothing queued, nothing held, every allocated revision
   committed), for every earlier List: replaying the delivered events newer than the early list (up to the later one's
   revision) over the early list gives the later list.
   (6) the converged store is usable: right after a drained List, an Update of a listed key whose expected revision is
   the listed one succeeds (the index record agrees with the newest version). *)
Fixpoint remove_kv (k : key) (l : list (key * value * N)) : list (key * value * N) :=
  match l with
  | [] => []
  | (k', v, r) :: l' => if k' =? k then remove_kv k l' else (k', v, r) :: remove_kv k l'
  end.

Definition events_between (h0 h1 : N) (evs_newest_first : list wevent) : list wevent :=
  events_after h0 (filter (fun ev => e_rev ev <=? h1) evs_newest_first).

Definition lists_agree (evs : list wevent) (early : N * list (key * value * N)) (h1 : N) (l1 : list (key * value * N)) : bool :=
  let '(h0, l0) := early in
  forallb (fun k => kvo_eqb (replay_key k (events_between h0 h1 evs) (lookup_kv k l0)) (lookup_kv k l1)) keys4.

Record cstate := { cs_book : book; cs_lists : list (N * list (key * value * N));
                   cs_probe : option (list (key * value * N)); cs_conv : bool; cs_probe_ok : bool }.

Definition drained (b : book) (o : obs) : bool :=
  (o_queue o =? 0) && (o_committed o =? bk_dealt b) && negb (bk_parked b) && match bk_unres b with [] => true | _ => false end.

Definition conv_step (evs : list wevent) (a : cstate) (x : dstep * obs) : cstate :=
  let '(d, o) := x in
  let b' := book_step (cs_book a) x in
  match d, o_d o with
  | DList, OListed h l =>
      if drained b' o
      then {| cs_book := b'; cs_lists := (h, l) :: cs_lists a; cs_probe := Some l;
              cs_conv := cs_conv a && forallb (fun early => lists_agree evs early h l) (cs_lists a);
              cs_probe_ok := cs_probe_ok a |}
      else {| cs_book := b'; cs_lists := (h, l) :: cs_lists a; cs_probe := None; cs_conv := cs_conv a; cs_probe_ok := cs_probe_ok a |}
  | DWrite (OUpdate k _ prev) [] false false, OResp r _ =>
      match cs_probe a with
      | Some l =>
          match lookup_kv k l with
          | Some (_, r0) =>
              if r0 =? prev
              then {| cs_book := b'; cs_lists := cs_lists a; cs_probe := Some (remove_kv k l); cs_conv := cs_conv a;
                      cs_probe_ok := cs_probe_ok a && match r with ROk _ _ => true | _ => false end |}
              else {| cs_book := b'; cs_lists := cs_lists a; cs_probe := None; cs_conv := cs_conv a; cs_probe_ok := cs_probe_ok a |}
          | None => {| cs_book := b'; cs_lists := cs_lists a; cs_probe := None; cs_conv := cs_conv a; cs_probe_ok := cs_probe_ok a |}
          end
      | None => {| cs_book := b'; cs_lists := cs_lists a; cs_probe := None; cs_conv := cs_conv a; cs_probe_ok := cs_probe_ok a |}
      end
  | _, _ => {| cs_book := b'; cs_lists := cs_lists a; cs_probe := None; cs_conv := cs_conv a; cs_probe_ok := cs_probe_ok a |}
  end.

(* (4) acknowledged writes are durable: exactly one delivered event carries the acknowledged revision (once it is
   committed), with the request's verb / key / value, and delivered events have increasing revisions *)
Definition final_committed (os : list obs) : N :=
  match rev os with o :: _ => o_committed o | [] => 0 end.

Definition ack_event_ok (evs : list evobs) (fin : N) (x : dstep * obs) : bool :=
  let '(d, o) := x in
  match d, o_d o with
  | DWrite op _ _ _, OResp (ROk h _) _ =>
      if fin <? h then true else     (* not yet committed when the script ends (sequencer held): nothing delivered yet *)
      match filter (fun e => let '(_, _, _, r, _) := e in r =? h) evs with
      | [(v, k, val, _, _)] =>
          verb_eqb v (op_verb op) && (k =? op_key op)
          && match op_value op with Some x => beqb x val | None => true end
      | _ => false
      end
  | _, _ => true
  end.

Fixpoint increasing (l : list N) : bool :=
  match l with
  | a :: ((b :: _) as l') => (a <? b) && increasing l'
  | _ => true
  end.

Definition conv_of (c : c09_case) : cstate :=
  fold_left (conv_step (rev (map ev_of_obs (c_events c)))) (combine (c_script c) (c_obs c))
            {| cs_book := {| bk_dealt := r0; bk_unres := []; bk_parked := false; bk_prev := 0; bk_ok := true |};
               cs_lists := []; cs_probe := None; cs_conv := true; cs_probe_ok := true |}.

Definition c09_oracle (c : c09_case) : option N :=
  if existsb step_outside (c_script c) then None else
  if negb (forallb class_ok (c_obs c)) then Some 0 else
  if negb (bk_ok (book_of c)) then Some 0 else
  if negb (forallb (ack_event_ok (c_events c) (final_committed (c_obs c))) (combine (c_script c) (c_obs c))
           && increasing (map (fun e : evobs => let '(_, _, _, r, _) := e in r) (c_events c))) then Some 0 else
  let cs := conv_of c in
  if negb (cs_probe_ok cs) then Some 0 else
  if cs_conv cs then None else Some 0.

(* ---------- the check ----------
   The model's observation of the script equals the recorded one, and — for scripts inside the stated assumptions — the
   oracle's bookkeeping over observations agrees with the model where it matters: wherever it regards a List as drained
   (queue observation 0, committed = revisions counted from observations, nothing parked or unresolved) the model state
   is quiescent. *)
Definition book0 : book := {| bk_dealt := r0; bk_unres := []; bk_parked := false; bk_prev := 0; bk_ok := true |}.

Fixpoint drained_quiescent (m : mstate) (b : book) (ds : list dstep) : bool :=
  match ds with
  | [] => true
  | d :: ds' =>
      let mo := dstep_run m d in
      let b' := book_step b (d, snd mo) in
      match d with DList => implb (drained b' (snd mo)) (quiescentb (m_s (fst mo))) | _ => true end
      && drained_quiescent (fst mo) b' ds'
  end.

(* executable form of the stated assumptions on a script (Proofs/C09Cases.v: c09_validb c = true -> c09_valid c):
   no step outside the assumptions, a DWrite carries a write request, no repair commit answered with a bare abort *)
Definition dstep_wfb (d : dstep) : bool :=
  negb (step_outside d) && match d with DRetry EnvAbort _ | DRetryFinish EnvAbort => false | DWrite op _ _ _ => op_is_write op | _ => true end.
Definition c09_validb (c : c09_case) : bool := forallb dstep_wfb (c_script c).

(* a script with a step_outside step is evaluated for correspondence only (the oracle reports nothing on it, by
   definition); every other script must be valid — so a case that passes the check is covered by C09_oracle_sound *)
Definition c09_check (c : c09_case) : bool :=
  let '(os, evs) := model_obs c in
  list_eqb obs_eqb os (c_obs c) && list_eqb evobs_eqb evs (c_events c)
  && (existsb step_outside (c_script c) || (c09_validb c && drained_quiescent minit book0 (c_script c))).
