(* The lock record as client-go's elector forms it (leaderelection.go tryAcquireOrRenew step 3, release()):
   which records can follow which. Used to discharge the "new record differs from the observed bytes"
   side condition of C14_no_double_acquire for take-overs. Definitions only. *)
From KB Require Export Base.Cases Model.Election.
Local Open Scope N_scope.

Record srec := mkS {
  s_holder  : bytes;      (* HolderIdentity; [] = released *)
  s_acquire : N;          (* AcquireTime *)
  s_renew   : N;          (* RenewTime *)
  s_trans   : N           (* LeaderTransitions *)
}.

(* what elector `me` writes at `now` over the record x it observed *)
Definition cg_update (me : bytes) (now : N) (x : srec) : srec :=
  if beqb (s_holder x) me
  then mkS me (s_acquire x) now (s_trans x)          (* IsLeader(): renewal keeps acquire time and transitions *)
  else mkS me now now (s_trans x + 1).                (* take-over: transitions + 1 *)
(* release(): empty holder, transitions kept *)
Definition cg_release (x : srec) : srec := mkS [] 0 0 (s_trans x).

(* a take-over: the holder changes to a non-empty identity *)
Definition is_takeover (x y : srec) : Prop := s_holder y <> s_holder x /\ s_holder y <> [].

(* an applied Update whose old and new bytes are marshalled elector records, the new one formed from the old
   one by the rules above: transitions never decrease and grow on a take-over *)
Definition cg_formed (marshal : srec -> bytes) (e : entry) : Prop :=
  e_create e = false /\
  exists x y, e_cond e = Some (marshal x) /\ e_new e = marshal y /\
              s_trans x <= s_trans y /\ (is_takeover x y -> s_trans x < s_trans y).
