(* C20 — No request can crash or wedge a node, with production metrics enabled.
   Property theorems only: each is closed by `exact <lemma>` and followed by Print Assumptions. *)
From KB Require Import Base.Cases Model.Metrics Model.Handlers Model.HandlerMetrics Model.C20Cases
  Proofs.Metrics Proofs.C20Cases Proofs.HandlerMetrics.
From KB Require Model.WatchSys Proofs.WatchSys Proofs.WatchCatchup Proofs.WatchFrame Proofs.WatchNoPanic.   (* C05's development, cited below; not imported *)
Local Open Scope N_scope.

(* (a) metric emission never panics.  For every table [t] of emission call sites that passes the
   static check (with the program's global label names), every registry state reachable by emissions
   that are instances of table rows — starting from a registry that only holds the other collectors'
   names — and every further such emission: the wrapper does not panic. *)
Theorem C20_metrics_sound : forall g t s e,
  check (map fst g) t = true -> Forall (fun v => valid_utf8 v = true) (map snd g) -> reachable g t s ->
  (exists r, In r t /\ instance_of r e = true) ->
  snd (emit s e) = Ok.
Proof. exact metrics_sound. Qed.
Print Assumptions C20_metrics_sound.

Theorem C20_metrics_run_sound : forall g t reg0 es,
  check (map fst g) t = true -> Forall (fun v => valid_utf8 v = true) (map snd g) ->
  Forall (fun n => foreign n = true) reg0 ->
  Forall (fun e => exists r, In r t /\ instance_of r e = true) es ->
  Forall (fun o => o = Ok) (snd (run (init_state g reg0) es)).
Proof. exact metrics_run_sound. Qed.
Print Assumptions C20_metrics_run_sound.

(* the executable oracle used on the implementation's observations accepts what the model produces *)
Theorem C20_oracle_sound : forall gn t c,
  c20_valid gn t c -> c20_check t c = true -> c20_oracle gn t c = None.
Proof. exact c20_oracle_sound. Qed.
Print Assumptions C20_oracle_sound.

(* (b) request totality.  There is no model of the whole node in this file and therefore no theorem "no request
   crashes or wedges the node" as such (props/C20.json, gaps).  What is proved: the guards of the handler model
   (below), every metric emission of the program (above), and — cited from C04 / C05 — progress and the watcher
   hub.  The evidence that the REAL handlers do not panic on hostile bytes, revisions and limits (slice bounds,
   decoding, nil maps, allocation sizes) is the child-process run of the driver, not a theorem. *)
(* The guards of the handler model — PARTIAL for the property.  Model/Handlers.v reduces a request to what the
   handlers' validation and the transaction recognisers look at; keys and values enter only through "is it empty".
   Modelled, on a leader: native Create, Update, Delete, Compact, Get, Range, Count, ListPartition, RangeStream,
   Watch; etcd Range (get / list-partition / count / range), Txn (create / delete / update / compact / unsupported
   shapes), Watch.  For every request of that model (every constructor, every byte string, every revision / limit in
   N resp. Z, every list of compares and operations):
     (1) the model's explicit panic sources — a nil Kv reaching backend.Update, a create shape without a put, and
         (handle_p) an index out of range in the transaction recognisers — are not reached;
     (2) the request is rejected before the backend or allocates at most one revision;
     (3) every metric the handler emits itself is an instance of a table row, hence — the table passing the check —
         the Prometheus wrapper does not panic on it ([covers t all_handler_rows] is the regenerated obligation
         Gen.MetricsTableOk.handlers_covered).
   This says nothing about panics inside the real handlers that the model does not represent. *)
Theorem C20_handler_guards_partial : forall g t,
  check (map fst g) t = true -> Forall (fun v => valid_utf8 v = true) (map snd g) -> covers t all_handler_rows = true ->
  forall r,
    handle r <> HPanic /\
    (forall n, handle r = HRun n -> n <= 1) /\
    (forall s h e, reachable g t s -> In h (handler_rows r) -> instance_of h e = true -> snd (emit s e) = Ok).
Proof. exact handlers_total. Qed.
Print Assumptions C20_handler_guards_partial.

(* Explicit partial operations on request data, where Go would panic:
   - the transaction recognisers of kv.go index Compare / Success / Failure (index out of range = PPanic) behind
     length tests joined by short-circuit &&: for EVERY three lists the guarded recognisers do not panic and decide
     exactly the shape [txn_shape_of] names; *)
Theorem C20_txn_recognisers_total : forall cmp succ fail,
  txn_shape_p cmp succ fail = PVal (txn_shape_of cmp succ fail).
Proof. exact txn_shape_p_total. Qed.
Print Assumptions C20_txn_recognisers_total.

Theorem C20_handle_p_no_panic : forall r, handle_p r <> HPanic.
Proof. exact handle_p_no_panic. Qed.
Print Assumptions C20_handle_p_no_panic.

(* - List: the limit goes through `limit+1` (int64 wrap-around), becomes the receiver's limit, and the result is cut
     with kvs[0:limit] (slice bounds out of range = PPanic); buffers are made with make(.., 0, n) (n < 0 or n beyond
     the allocator's limit = PPanic).  For EVERY int64 limit and every number of matching keys neither panics, and
     the answer (count, More) is the one list_response_ok accepts. *)
Theorem C20_list_total : forall limit found,
  (min_int64 <= limit <= max_int64)%Z -> (0 <= found)%Z ->
  exists n more, list_exec limit found = PVal (n, more) /\ list_response_ok limit n more = true /\ (n <= found)%Z.
Proof. exact list_exec_total. Qed.
Print Assumptions C20_list_total.

(* validity (what the model can decide about a case: the table check for table cases, nothing for the others) is
   decidable and evaluated by the shards: a case accepted by a shard (c20_check_covered) is within the scope of
   C20_oracle_sound, or the oracle has already rejected it.  For request cases c20_check compares the observed
   outcome class, allocation, list answer, handler emissions, health and progress with what the model predicts;
   C20_oracle_sound then rests on C20_handle_p_no_panic (the model never predicts a panic).  KSeq is a
   model-validation case (oracle constantly None). *)
Theorem C20_validb_sound : forall gn t c, c20_validb gn t c = true -> c20_valid gn t c.
Proof. exact c20_validb_sound. Qed.
Print Assumptions C20_validb_sound.

Theorem C20_covered_scope : forall gn t c,
  c20_check_covered gn t c = true -> c20_oracle gn t c = None -> c20_valid gn t c.
Proof. exact c20_covered_scope. Qed.
Print Assumptions C20_covered_scope.

(* C20-F1 (fixed in /repo): the etcd watch server answers every pure watch with exactly one Canceled response,
   whether the client cancels it or its stream ends; a cancel request for an unknown id gets none.  (Before the fix a
   client-cancelled watch got two, and the duplicate made etcd clientv3 v3.5.2 panic inside a follower's proxy.) *)
Theorem C20_watch_cancel_once : forall cc, watch_cancel_responses true cc = 1.
Proof. exact watch_cancel_once. Qed.
Print Assumptions C20_watch_cancel_once.

(* The watch-liveness probe and the slow-client scenario are the image of two theorems of C05's model of the
   watcher hub (Model/WatchSys.v), cited here: a subscriber whose buffer was found full is closed and unregistered
   within the same hub step — the hub goes on delivering to the others — and, with the real channel sizes, Watch
   itself neither blocks nor panics whatever the event ring returned. *)
Theorem C20_slow_subscriber_is_dropped : forall pa l c0 ls i w, 0 < l ->
  nth_error (KB.Model.WatchSys.s_ws (KB.Model.WatchSys.run pa ls (KB.Model.WatchSys.init l c0))) i = Some w ->
  KB.Model.WatchSys.w_dropped w = true ->
  KB.Model.WatchSys.w_reg w = false /\ KB.Model.WatchSys.c_closed (KB.Model.WatchSys.w_sub w) = true.
Proof. exact KB.Proofs.WatchSys.dropped_is_closed. Qed.
Print Assumptions C20_slow_subscriber_is_dropped.

(* ... and the hub goes on delivering to the others: the state of watcher i (what it holds, what its client has
   received) after a run equals its state after the same run with every step of another watcher j removed — a
   slow, dropped or cancelled sibling changes nothing for it (C05_siblings_independent); and in no run does the hub
   panic or a watcher hang (C05_no_panic_no_hang). *)
Theorem C20_hub_keeps_delivering : forall pa l c0 ls i j, 0 < l -> KB.Proofs.WatchCatchup.fits_params pa -> i <> j ->
  nth_error (KB.Model.WatchSys.s_ws (KB.Model.WatchSys.run pa ls (KB.Model.WatchSys.init l c0))) i
  = nth_error (KB.Model.WatchSys.s_ws (KB.Model.WatchSys.run pa
      (filter (fun lb => negb (KB.Proofs.WatchFrame.targets j lb)) ls) (KB.Model.WatchSys.init l c0))) i.
Proof. exact KB.Proofs.WatchFrame.sibling_stream_independent. Qed.
Print Assumptions C20_hub_keeps_delivering.

Theorem C20_hub_no_panic_no_hang : forall pa l c0 ls, 0 < l -> KB.Proofs.WatchCatchup.fits_params pa ->
  let s := KB.Model.WatchSys.run pa ls (KB.Model.WatchSys.init l c0) in
  KB.Model.WatchSys.s_panic s = false /\
  forall i w, nth_error (KB.Model.WatchSys.s_ws s) i = Some w ->
    KB.Model.WatchSys.w_phase w <> KB.Model.WatchSys.PhPanic /\ KB.Model.WatchSys.w_phase w <> KB.Model.WatchSys.PhHung.
Proof. exact KB.Proofs.WatchNoPanic.no_panic_no_hang. Qed.
Print Assumptions C20_hub_no_panic_no_hang.

Theorem C20_watch_never_hangs : forall l sigma S P c,
  KB.Model.WatchSys.watch_decide KB.Model.WatchSys.real_params S P (KB.Model.WatchSys.find_spec l sigma S) c <> KB.Model.WatchSys.DHang /\
  KB.Model.WatchSys.watch_decide KB.Model.WatchSys.real_params S P (KB.Model.WatchSys.find_spec l sigma S) c <> KB.Model.WatchSys.DPanic.
Proof. intros. exact (KB.Proofs.WatchCatchup.decide_never_hangs _ l sigma S P c KB.Proofs.WatchCatchup.real_params_fit). Qed.
Print Assumptions C20_watch_never_hangs.

(* what List / Range do with the client's limit, for every int64: limits 1 .. MaxInt64-1 stop the scan
   after limit+1 results, everything else (0, negative, MaxInt64 whose +1 overflows) is unlimited; and no
   request makes a scan reserve buffer space from the limit (the first attempt's buffer has capacity 0).
   A change that sizes a buffer from the limit is outside this model: it is the request run with the
   limits MaxInt64-1, 2^62, 2^33..2^44 (fixed corpus + generator) that catches it. *)
Theorem C20_list_limit : forall l, (min_int64 <= l <= max_int64)%Z ->
  list_limit l = if ((0 <? l)%Z && (l <? max_int64)%Z)%bool then Limited (l + 1)%Z else Unlimited.
Proof. exact list_limit_spec. Qed.
Print Assumptions C20_list_limit.

Theorem C20_scan_prealloc : forall l, scan_prealloc (list_limit l) 0 = 0.
Proof. exact scan_prealloc_zero. Qed.
Print Assumptions C20_scan_prealloc.

(* ---------- non-vacuity ---------- *)

Definition ex_m : str := [109].            (* "m" *)
Definition ex_n : str := [110].            (* "n" *)
Definition ex_ab : str := [97; 46; 98].    (* "a.b" *)
Definition ex_a_b : str := [97; 95; 98].   (* "a_b" *)
Definition ex_table : list row :=
  [ {| r_site := 0; r_kind := Counter; r_name := Some ex_ab; r_labels := Some [(ex_m, VFmt); (ex_n, VConst [118])]; r_sign := NonNeg |};
    {| r_site := 1; r_kind := Counter; r_name := Some ex_ab; r_labels := Some [(ex_n, VOneOf [[118]; [119]]); (ex_m, VSanitised)]; r_sign := NonNeg |};
    {| r_site := 2; r_kind := Histogram; r_name := Some [120]; r_labels := Some []; r_sign := AnySign |} ].
Definition ex_g : list (str * str) := [([99], [99])].
Definition ex_e1 := {| e_kind := Counter; e_name := ex_ab; e_labels := [(ex_m, [49]); (ex_n, [118])]; e_neg := false |}.
Definition ex_e2 := {| e_kind := Counter; e_name := ex_ab; e_labels := [(ex_n, [119]); (ex_m, [63])]; e_neg := false |}.

(* the hypotheses of C20_metrics_run_sound hold on a non-trivial table and run *)
Example C20_hyps_inhabited :
  check (map fst ex_g) ex_table = true /\ instance_of (nth 0 ex_table {| r_site := 9; r_kind := Gauge; r_name := None; r_labels := None; r_sign := AnySign |}) ex_e1 = true /\
  instance_of (nth 1 ex_table {| r_site := 9; r_kind := Gauge; r_name := None; r_labels := None; r_sign := AnySign |}) ex_e2 = true /\
  snd (run (init_state ex_g [[103;111;95;120]]) [ex_e1; ex_e2]) = [Ok; Ok].
Proof. vm_compute. repeat split; reflexivity. Qed.

(* each ingredient of the check is needed: the model panics without it *)
Example C20_label_mismatch_panics :
  snd (run (init_state [] []) [ex_e1; {| e_kind := Counter; e_name := ex_ab; e_labels := [(ex_m, [49])]; e_neg := false |}]) = [Ok; Panic].
Proof. vm_compute. reflexivity. Qed.
Example C20_non_utf8_value_panics :
  snd (emit (init_state [] []) {| e_kind := Counter; e_name := ex_ab; e_labels := [(ex_m, [47; 255])]; e_neg := false |}) = Panic.
Proof. vm_compute. reflexivity. Qed.
Example C20_formatted_name_collision_panics :
  snd (run (init_state [] []) [ex_e1; {| e_kind := Gauge; e_name := ex_a_b; e_labels := []; e_neg := false |}]) = [Ok; Panic].
Proof. vm_compute. reflexivity. Qed.
Example C20_global_label_duplicate_panics :
  snd (emit (init_state [(ex_m, [99])] []) ex_e1) = Panic.
Proof. vm_compute. reflexivity. Qed.
Example C20_raw_value_fails_check :
  check [] [ {| r_site := 0; r_kind := Counter; r_name := Some ex_ab; r_labels := Some [(ex_m, VRaw)]; r_sign := NonNeg |} ] = false.
Proof. vm_compute. reflexivity. Qed.
(* the handler guard is what keeps the nil-Kv dereference unreachable *)
Example C20_unguarded_update_panics : handle_unguarded_update false = HPanic.
Proof. vm_compute. reflexivity. Qed.
(* the hypotheses of C20_handler_guards_partial are satisfiable: the handler rows cover themselves and pass the check *)
Example C20_handler_guards_inhabited :
  check [] all_handler_rows = true /\ covers all_handler_rows all_handler_rows = true /\
  handler_rows (BCreate [47] [118]) <> [] /\
  instance_of (hd (mk Gauge [] [] AnySign) (handler_rows (ETxn [] [] [])))
    {| e_kind := Counter; e_name := n_write; e_labels := [(l_method, m_invalid); (l_success, v_false)]; e_neg := false |} = true /\
  c20_validb (Some []) all_handler_rows (KReq (BGet [47] 0) OResp 0%Z true true None []) = true /\
  c20_check_covered (Some []) all_handler_rows (KReq (BGet [47] 0) OPanic 0%Z true true None []) = false.
Proof. vm_compute. repeat split; try reflexivity; discriminate. Qed.
(* the guards are needed: without the length test the recogniser indexes an empty list; a buffer sized from the
   limit (seeded/C20-2, C20-4) panics for 2^62; cutting to a limit beyond the result panics *)
Example C20_partial_ops_can_panic :
  is_create_unguarded [] = PPanic /\ is_create_p [] [] [] = PVal false /\
  list_exec_presized 4611686018427387904 5 = PPanic /\ list_exec 4611686018427387904 5 = PVal (5%Z, false) /\
  slice_to 3 7 = PPanic /\ list_exec 2 9 = PVal (2%Z, true) /\ make_cap (-1) = PPanic.
Proof. vm_compute. repeat split; reflexivity. Qed.
(* regression witness of C20-F1: the observation the unrepaired server produced (two Canceled responses for a
   client-cancelled watch; a response to a cancel of an unknown id) disagrees with the model and fails the oracle *)
Example C20_F1_regression :
  c20_check [] (KCancel true 2) = false /\ c20_oracle None [] (KCancel true 2) = Some 0 /\
  c20_check [] (KCancel true 1) = true /\ c20_oracle None [] (KCancel false 1) = None /\
  c20_oracle None [] (KCancelUnknown 1 true) = Some 0 /\ c20_check [] (KCancelUnknown 0 true) = true.
Proof. vm_compute. repeat split; reflexivity. Qed.
Example C20_limit_examples :
  list_limit max_int64 = Unlimited /\ list_limit (max_int64 - 1) = Limited max_int64 /\
  list_limit 4611686018427387904 = Limited 4611686018427387905 /\ list_limit (-1) = Unlimited /\ list_limit 0 = Unlimited /\
  list_response_ok 2 2 true = true /\ list_response_ok 2 3 false = false /\ list_response_ok max_int64 5 true = false.
Proof. vm_compute. repeat split; reflexivity. Qed.
Example C20_handlers_inhabited :
  handle (BUpdate true [47] [118] 5) = HRun 1 /\ handle (BUpdate false [] [] 0) = HReject /\
  handle (ETxn [{| c_target := 2; c_result := 0; c_modrev := (-5)%Z; c_key := [47] |}] [OpPut false false false] [OpRange]) = HRun 1.
Proof. vm_compute. repeat split; reflexivity. Qed.
