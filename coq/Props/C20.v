(* C20 — No request can crash or wedge a node, with production metrics enabled.
   Property theorems only: each is closed by `exact <lemma>` and followed by Print Assumptions. *)
From KB Require Import Base.Cases Model.Metrics Model.Handlers Model.C20Cases Proofs.Metrics Proofs.C20Cases.
Local Open Scope N_scope.

(* (a) metric emission never panics.  For every table [t] of emission call sites that passes the
   static check (with the program's global label names), every registry state reachable by emissions
   that are instances of table rows — starting from a registry that only holds the other collectors'
   names — and every further such emission: the wrapper does not panic. *)
Theorem C20_metrics_sound : forall g t s e,
  check (map fst g) t = true -> Forall (fun v => valid_utf8 v = true) (map snd g) -> reachable g t s ->
  (exists r, In r t /\ instance_of r e = true) ->
  snd (emit s e) = Ok.
Proof. exact metrics_sound. Qed.
Print Assumptions C20_metrics_sound.

Theorem C20_metrics_run_sound : forall g t reg0 es,
  check (map fst g) t = true -> Forall (fun v => valid_utf8 v = true) (map snd g) ->
  Forall (fun n => foreign n = true) reg0 ->
  Forall (fun e => exists r, In r t /\ instance_of r e = true) es ->
  Forall (fun o => o = Ok) (snd (run (init_state g reg0) es)).
Proof. exact metrics_run_sound. Qed.
Print Assumptions C20_metrics_run_sound.

(* the executable oracle used on the implementation's observations accepts what the model produces *)
Theorem C20_oracle_sound : forall gn t c,
  c20_valid gn t c -> c20_check t c = true -> c20_oracle gn t c = None.
Proof. exact c20_oracle_sound. Qed.
Print Assumptions C20_oracle_sound.

(* (b) request totality.  The full statement is over a model of the whole node: *)
Record node_system := {
  ns_state : Type;
  ns_reachable : ns_state -> Prop;
  ns_step : ns_state -> request -> ns_state * req_outcome;
  ns_serves : ns_state -> Prop      (* a later create becomes readable and the committed revision reaches it *)
}.
Definition C20_full_statement (sys : node_system) : Prop :=
  forall s r, ns_reachable sys s ->
    (snd (ns_step sys s r) = OResp \/ snd (ns_step sys s r) = OErr) /\ ns_serves sys (fst (ns_step sys s r)).

(* proved part: behind the handlers' validation no explicit Go panic source (nil Kv dereference in
   backend.Update, a create shape without a put) is reachable, for every request of either API;
   and a request allocates at most one revision (what the progress probe relies on). *)
Theorem C20_total_partial : forall r, handle r <> HPanic.
Proof. exact handle_no_panic. Qed.
Print Assumptions C20_total_partial.

Theorem C20_alloc_partial : forall r n, handle r = HRun n -> n <= 1.
Proof. exact handle_alloc_le_1. Qed.
Print Assumptions C20_alloc_partial.

(* what List / Range do with the client's limit, for every int64: limits 1 .. MaxInt64-1 stop the scan
   after limit+1 results, everything else (0, negative, MaxInt64 whose +1 overflows) is unlimited; and no
   request makes a scan reserve buffer space from the limit (the first attempt's buffer has capacity 0).
   A change that sizes a buffer from the limit is outside this model: it is the request run with the
   limits MaxInt64-1, 2^62, 2^33..2^44 (fixed corpus + generator) that catches it. *)
Theorem C20_list_limit : forall l, (min_int64 <= l <= max_int64)%Z ->
  list_limit l = if ((0 <? l)%Z && (l <? max_int64)%Z)%bool then Limited (l + 1)%Z else Unlimited.
Proof. exact list_limit_spec. Qed.
Print Assumptions C20_list_limit.

Theorem C20_scan_prealloc : forall l, scan_prealloc (list_limit l) 0 = 0.
Proof. exact scan_prealloc_zero. Qed.
Print Assumptions C20_scan_prealloc.

(* ---------- non-vacuity ---------- *)

Definition ex_m : str := [109].            (* "m" *)
Definition ex_n : str := [110].            (* "n" *)
Definition ex_ab : str := [97; 46; 98].    (* "a.b" *)
Definition ex_a_b : str := [97; 95; 98].   (* "a_b" *)
Definition ex_table : list row :=
  [ {| r_site := 0; r_kind := Counter; r_name := Some ex_ab; r_labels := Some [(ex_m, VFmt); (ex_n, VConst [118])]; r_sign := NonNeg |};
    {| r_site := 1; r_kind := Counter; r_name := Some ex_ab; r_labels := Some [(ex_n, VOneOf [[118]; [119]]); (ex_m, VSanitised)]; r_sign := NonNeg |};
    {| r_site := 2; r_kind := Histogram; r_name := Some [120]; r_labels := Some []; r_sign := AnySign |} ].
Definition ex_g : list (str * str) := [([99], [99])].
Definition ex_e1 := {| e_kind := Counter; e_name := ex_ab; e_labels := [(ex_m, [49]); (ex_n, [118])]; e_neg := false |}.
Definition ex_e2 := {| e_kind := Counter; e_name := ex_ab; e_labels := [(ex_n, [119]); (ex_m, [63])]; e_neg := false |}.

(* the hypotheses of C20_metrics_run_sound hold on a non-trivial table and run *)
Example C20_hyps_inhabited :
  check (map fst ex_g) ex_table = true /\ instance_of (nth 0 ex_table {| r_site := 9; r_kind := Gauge; r_name := None; r_labels := None; r_sign := AnySign |}) ex_e1 = true /\
  instance_of (nth 1 ex_table {| r_site := 9; r_kind := Gauge; r_name := None; r_labels := None; r_sign := AnySign |}) ex_e2 = true /\
  snd (run (init_state ex_g [[103;111;95;120]]) [ex_e1; ex_e2]) = [Ok; Ok].
Proof. vm_compute. repeat split; reflexivity. Qed.

(* each ingredient of the check is needed: the model panics without it *)
Example C20_label_mismatch_panics :
  snd (run (init_state [] []) [ex_e1; {| e_kind := Counter; e_name := ex_ab; e_labels := [(ex_m, [49])]; e_neg := false |}]) = [Ok; Panic].
Proof. vm_compute. reflexivity. Qed.
Example C20_non_utf8_value_panics :
  snd (emit (init_state [] []) {| e_kind := Counter; e_name := ex_ab; e_labels := [(ex_m, [47; 255])]; e_neg := false |}) = Panic.
Proof. vm_compute. reflexivity. Qed.
Example C20_formatted_name_collision_panics :
  snd (run (init_state [] []) [ex_e1; {| e_kind := Gauge; e_name := ex_a_b; e_labels := []; e_neg := false |}]) = [Ok; Panic].
Proof. vm_compute. reflexivity. Qed.
Example C20_global_label_duplicate_panics :
  snd (emit (init_state [(ex_m, [99])] []) ex_e1) = Panic.
Proof. vm_compute. reflexivity. Qed.
Example C20_raw_value_fails_check :
  check [] [ {| r_site := 0; r_kind := Counter; r_name := Some ex_ab; r_labels := Some [(ex_m, VRaw)]; r_sign := NonNeg |} ] = false.
Proof. vm_compute. reflexivity. Qed.
(* the handler guard is what keeps the nil-Kv dereference unreachable *)
Example C20_unguarded_update_panics : handle_unguarded_update false = HPanic.
Proof. vm_compute. reflexivity. Qed.
Example C20_limit_examples :
  list_limit max_int64 = Unlimited /\ list_limit (max_int64 - 1) = Limited max_int64 /\
  list_limit 4611686018427387904 = Limited 4611686018427387905 /\ list_limit (-1) = Unlimited /\ list_limit 0 = Unlimited /\
  list_response_ok 2 2 true = true /\ list_response_ok 2 3 false = false /\ list_response_ok max_int64 5 true = false.
Proof. vm_compute. repeat split; reflexivity. Qed.
Example C20_handlers_inhabited :
  handle (BUpdate true [47] [118] 5) = HRun 1 /\ handle (BUpdate false [] [] 0) = HReject /\
  handle (ETxn [{| c_target := 2; c_result := 0; c_modrev := (-5)%Z; c_key := [47] |}] [OpPut false false false] [OpRange]) = HRun 1.
Proof. vm_compute. repeat split; reflexivity. Qed.
