(* C17 — Expiry removes only event keys, wholly, and only after the TTL.
   Property theorems only: each is closed by `exact <lemma>` and followed by Print Assumptions. *)
From KB Require Import Base.Cases Model.Coder Model.CompactSys Model.C07Cases Model.C17Cases
  Proofs.Coder Proofs.CompactSafe Proofs.CompactPass Proofs.CompactExpiry.
Local Open Scope N_scope.

(* what the code guarantees, for every store, mark queue, wall time, fault placement and interleaving:
   (C17_not_young) the timeout revision is 0 or the revision of a mark at least ttl old (and 0 on engines
   with native TTL); every engine delete of scanner.Compact is a compaction target (C07) or targets a
   stored record of a key CONTAINING "/events/" whose revision is at most that timeout revision *)
Theorem C17_scanner_expiry_targets : forall sup ttl now R lo hi q V oc,
  let '(q', tr, d) := scanner_compact sup ttl now R lo hi q (init_d V oc) in
  (tr = 0 \/ (sup = false /\ exists t, In (tr, t) (q ++ [(R, now)]) /\ ttl <= now - t)) /\
  Forall (fun s => (contains events_sub (rkey (ds_target s)) = true /\ rec_rev (ds_target s) <= tr /\ tr <> 0 /\
                    In (ds_target s) V)
                   \/ compaction_target R (ds_target s)) (d_trace d).
Proof. exact scanner_compact_steps. Qed.
Print Assumptions C17_scanner_expiry_targets.

(* C17_only_events at full strength ("the key is under <prefix>/events/") is refuted by the substring test:
   a pod in a namespace called events is expired like an Event (finding C17-F1) *)
Definition pfx : bytes := [47;114].                                                    (* "/r" *)
Definition k_event : bytes := pfx ++ events_sub ++ [110;47;101].                       (* "/r/events/n/e" *)
Definition k_lookalike : bytes := pfx ++ [47;112;111;100;115] ++ events_sub ++ [112].  (* "/r/pods/events/p" *)
Definition k_plain : bytes := pfx ++ [47;112;111;100;115;47;97].                        (* "/r/pods/a" *)
Definition exS : store :=
  [RIdx k_event 5 false; RVer k_event 5 [1]; RIdx k_lookalike 6 false; RVer k_lookalike 6 [2];
   RIdx k_plain 7 false; RVer k_plain 7 [3]].
(* marks: (7, t=0); now = 400, ttl = 300: timeout revision 7 *)
Definition exRun := scanner_compact false 300 400 9 (pfx ++ [47]) (pfx ++ [48]) [(7, 0)] (init_d exS []).

Theorem C17_only_events_refuted :
  is_event_key pfx k_lookalike = false /\ contains events_sub k_lookalike = true /\
  In (RVer k_lookalike 6 [2]) exS /\ ~ In (RVer k_lookalike 6 [2]) (d_store (snd exRun)) /\
  get_at (d_store (snd exRun)) max_rev k_lookalike = None.
Proof.
  split; [vm_compute; reflexivity|]. split; [vm_compute; reflexivity|]. split; [vm_compute; auto 10|].
  split; [|vm_compute; reflexivity].
  vm_compute. intros [H|[H|[]]]; discriminate.
Qed.
Print Assumptions C17_only_events_refuted.

(* ... and holds on every store without such look-alike keys *)
Theorem C17_only_events_except_F1 : forall prefix sup ttl now R lo hi q V oc,
  (forall y, In y V -> contains events_sub (rkey y) = true -> is_event_key prefix (rkey y) = true) ->
  let '(q', tr, d) := scanner_compact sup ttl now R lo hi q (init_d V oc) in
  Forall (fun s => is_event_key prefix (rkey (ds_target s)) = true \/ compaction_target R (ds_target s)) (d_trace d).
Proof. exact scanner_only_events_except_lookalikes. Qed.
Print Assumptions C17_only_events_except_F1.

(* the TTL handed to the engine by Backend.create: same test, same verdicts *)
Theorem C17_ttl_choice_contains : forall ettl k, create_ttl ettl k <> 0 -> contains events_sub k = true.
Proof. exact create_ttl_contains. Qed.
Print Assumptions C17_ttl_choice_contains.
Theorem C17_ttl_choice_refuted : create_ttl 3600 k_lookalike <> 0 /\ is_event_key pfx k_lookalike = false.
Proof. split; [vm_compute; discriminate|vm_compute; reflexivity]. Qed.
Print Assumptions C17_ttl_choice_refuted.
Theorem C17_ttl_choice_except_F1 : forall prefix ettl k,
  (contains events_sub k = true -> is_event_key prefix k = true) -> create_ttl ettl k <> 0 -> is_event_key prefix k = true.
Proof. exact create_ttl_event_except_lookalikes. Qed.
Print Assumptions C17_ttl_choice_except_F1.

(* C17_not_young, the queue: what getTimeoutRevision pops is at least ttl old, and it returns the last popped *)
Theorem C17_not_young_marks : forall ttl now q prev,
  let '(tr, q') := pop_marks ttl now q prev in
  (tr = prev \/ exists t, In (tr, t) q /\ ttl <= now - t) /\
  (exists popped, q = popped ++ q' /\ Forall (fun m => ttl <= now - snd m) popped).
Proof. exact pop_marks_spec. Qed.
Print Assumptions C17_not_young_marks.

(* C17_whole: every record of an /events/ key in the range at or below the timeout revision (in a
   well-formed store: index revision <= timeout revision) => one fault-free pass removes index and versions
   together; Get(latest) = absent; Create succeeds with normal semantics; nothing else is added *)
Theorem C17_whole : forall R tr lo hi V k,
  tr <> 0 -> contains events_sub k = true -> bleb lo k && bltb k hi = true ->
  (forall x, In x V -> rkey x = k -> rec_rev x <= tr) ->
  let d := compact_range R tr lo hi (init_d V []) in
  (forall x, In x (d_store d) -> rkey x <> k) /\
  (forall x, In x (d_store d) -> In x V) /\
  get_at (d_store d) max_rev k = None /\
  forall v n, do_create (d_store d) k v n = (d_store d ++ [RIdx k n false; RVer k n v], WOk).
Proof. exact expiry_whole. Qed.
Print Assumptions C17_whole.

(* C17_others_untouched: whatever deletes fail or wherever the pass dies, a stored record that is neither
   an expiry target (key containing "/events/", revision <= timeout revision) nor a compaction target
   (C07) is still stored afterwards: non-event keys, Events with a newer index, young versions *)
Theorem C17_others_untouched : forall sup ttl now R lo hi q V os,
  idx_unique V ->
  let '(q', tr, d) := scanner_compact sup ttl now R lo hi q (init_d V (map (fun o => ([], o)) os)) in
  forall y, In y V -> ~ expiry_target tr y -> ~ compaction_target R y -> In y (d_store d).
Proof. exact scanner_others_untouched. Qed.
Print Assumptions C17_others_untouched.

(* engine-side TTL. Badger (as modelled: an overwrite replaces the entry's expiry): an entry that
   disappears had an expiry, and it has passed *)
Theorem C17_badger_ttl_not_young : forall now s y,
  In y (ts_store s) -> ~ In y (ts_store (advance EBadger now s)) -> t_exp y <> 0 /\ t_exp y <= now.
Proof. exact badger_advance_old. Qed.
Print Assumptions C17_badger_ttl_not_young.

(* memkv: the timer of the create removes an index written 1.5 s ago under a 2 s TTL (finding C17-F2) *)
Theorem C17_memkv_ttl_refuted :
  let s1 := put_ent EMem 0 2000 (RIdx k_event 5 false) (mkTS [] []) in
  let s2 := put_ent EMem 1000 0 (RIdx k_event 6 false) s1 in
  map t_rec (ts_store (advance EMem 1300 s2)) = [RIdx k_event 6 false] /\
  map t_rec (ts_store (advance EMem 2500 s2)) = [] /\ 2500 - 1000 < 2000.
Proof. vm_compute. repeat split. Qed.
Print Assumptions C17_memkv_ttl_refuted.

(* ---------- non-vacuity ---------- *)
Example C17_ex_run :
  fst exRun = ([(9, 400)], 7) /\
  d_store (snd exRun) = [RIdx k_plain 7 false; RVer k_plain 7 [3]] /\
  map (fun s => (ds_kind s, ds_target s)) (rev (d_trace (snd exRun)))
  = [(KDelCur, RIdx k_event 5 false); (KDel, RVer k_event 5 [1]); (KDelCur, RIdx k_lookalike 6 false); (KDel, RVer k_lookalike 6 [2])].
Proof. vm_compute. repeat split. Qed.

Example C17_ex_whole_hyps :
  7 <> 0 /\ contains events_sub k_event = true /\ bleb (pfx ++ [47]) k_event && bltb k_event (pfx ++ [48]) = true /\
  (forall x, In x exS -> rkey x = k_event -> rec_rev x <= 7).
Proof.
  split; [discriminate|]. split; [vm_compute; reflexivity|]. split; [vm_compute; reflexivity|].
  intros x Hx Hk. cbn in Hx. repeat (destruct Hx as [<-|Hx]; [cbn [rec_rev]; try lia; vm_compute in Hk; discriminate|]). destruct Hx.
Qed.

(* a young Event (index above the timeout revision) and a mark younger than the TTL: nothing expires *)
Example C17_ex_young :
  d_store (snd (scanner_compact false 300 200 9 (pfx ++ [47]) (pfx ++ [48]) [(7, 0)] (init_d exS []))) = exS /\
  d_store (snd (scanner_compact false 300 400 9 (pfx ++ [47]) (pfx ++ [48]) [(4, 0)] (init_d exS []))) = exS /\
  d_store (snd (scanner_compact true 300 400 9 (pfx ++ [47]) (pfx ++ [48]) [(7, 0)] (init_d exS []))) = exS.
Proof. vm_compute. repeat split. Qed.

Example C17_ex_idx_unique : idx_unique exS.
Proof.
  intros k r d r' d' H1 H2. cbn in H1, H2.
  repeat match goal with
         | H : _ \/ _ |- _ => destruct H as [H|H]
         | H : False |- _ => destruct H
         | H : RVer _ _ _ = RIdx _ _ _ |- _ => discriminate H
         end; cbv in H1, H2; split; congruence.
Qed.
