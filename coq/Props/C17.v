(* C17 — Expiry removes only event keys, wholly, and only after the TTL.
   Property theorems only: each is closed by `exact <lemma>` and followed by Print Assumptions. *)
From KB Require Import Base.Cases Model.Coder Model.CompactSys Model.C07Cases Model.C07Valid Model.C17Cases Model.C17Valid
  Proofs.Coder Proofs.CompactSafe Proofs.CompactWf Proofs.CompactPass Proofs.CompactExpiry Proofs.CompactRanges Proofs.CompactTtl Proofs.CompactScan Proofs.CompactExpirySafe Proofs.CompactValid Proofs.CompactValid17.
Local Open Scope N_scope.

(* NOTE on the only-events clause: the code's test is bytes.HasPrefix(key, EventsPrefix) with EventsPrefix =
   append([]byte(prefix), "/events/"...) (util.go getEventsPrefix: plain concatenation, no trailing-slash handling), and
   the model's is_expirable (events_prefix prefix) k and the specification's is_event_key prefix k both unfold to
   has_prefix (prefix ++ "/events/") k: "only Event keys" is therefore true by construction of the model. Its content lies
   in (a) C17_scanner_expiry_targets - nothing but the configured EventsPrefix test decides expiry, for ANY configured
   prefix -, (b) the look-alike Example C17_ex_lookalike_survives and the driver's look-alike keys (/registry/pods/events/p1,
   /registry/eventsx/a, /registry/events) on the real scanner and creator, (c) the constant "/events/" regenerated from
   the Go source on every run (ConstChecks/C17.v). A configured prefix that itself ends in "/" yields "<prefix>//events/",
   under which nothing is stored: nothing expires - outside the property, not exercised. *)
(* C17_only_events + C17_not_young, scanner path, for every store, mark queue, wall time,
   fault placement and interleaving: with the scanner configured by the backend (EventsPrefix =
   <prefix>/events/), the timeout revision is 0 or the revision of a mark at least ttl old (and 0 on engines
   with native TTL); every engine delete of scanner.Compact is a compaction target (C07) or targets a stored
   record of an Event key - a key under <prefix>/events/ - whose revision is at most that timeout revision *)
Theorem C17_only_events : forall prefix sup ttl now R lo hi q V oc,
  let '(q', tr, d) := scanner_compact (events_prefix prefix) sup ttl now R lo hi q (init_d V oc) in
  Forall (fun s => (is_event_key prefix (rkey (ds_target s)) = true /\ rec_rev (ds_target s) <= tr /\ tr <> 0 /\
                    In (ds_target s) V)
                   \/ compaction_target R (ds_target s)) (d_trace d).
Proof. exact scanner_only_events. Qed.
Print Assumptions C17_only_events.
(* C17_only_events at full strength: in a pass with expiry ON - any outcomes of the engine deletes, any writers' commits
   between them (version records above R, one value per (key, revision)) - every engine delete targets a record of an
   Event key at most as new as the timeout revision, or satisfies C07_safe_remove's premise in the store of that moment
   (ds_safe = premiseb, C07_premiseb_sound): no record of any other key is removed unless C07 allows it. (C07_pass's
   invariant is carried without its comparison of the store with the ghost store, which expiry breaks.) *)
Theorem C17_only_events_safe : forall prefix sup ttl now R lo hi q V oc,
  store_ok V -> uniq_ver (V ++ flat_map fst oc) ->
  (forall k r v, In (RVer k r v) (flat_map fst oc) -> R < r) ->
  let '(q', tr, d) := scanner_compact (events_prefix prefix) sup ttl now R lo hi q (init_d V oc) in
  Forall (fun s => (is_event_key prefix (rkey (ds_target s)) = true /\ rec_rev (ds_target s) <= tr /\ tr <> 0)
                   \/ ds_safe s = true) (d_trace d).
Proof. exact scanner_expiry_safe. Qed.
Print Assumptions C17_only_events_safe.

(* the same for any EventsPrefix (empty = nothing expires), with the bound on the timeout revision *)
Theorem C17_scanner_expiry_targets : forall evp sup ttl now R lo hi q V oc,
  let '(q', tr, d) := scanner_compact evp sup ttl now R lo hi q (init_d V oc) in
  (tr = 0 \/ (sup = false /\ exists t, In (tr, t) (q ++ [(R, now)]) /\ ttl <= now - t)) /\
  Forall (fun s => (is_expirable evp (rkey (ds_target s)) = true /\ rec_rev (ds_target s) <= tr /\ tr <> 0 /\
                    In (ds_target s) V)
                   \/ compaction_target R (ds_target s)) (d_trace d).
Proof. exact scanner_compact_steps. Qed.
Print Assumptions C17_scanner_expiry_targets.

(* C17_only_events, engine path: Backend.create hands a TTL to the engine only for Event keys *)
Theorem C17_only_events_ttl_choice : forall ettl prefix k, create_ttl ettl prefix k <> 0 -> is_event_key prefix k = true.
Proof. exact create_ttl_event. Qed.
Print Assumptions C17_only_events_ttl_choice.

Definition pfx : bytes := [47;114].                                                    (* "/r" *)
Definition k_event : bytes := pfx ++ events_sub ++ [110;47;101].                       (* "/r/events/n/e" *)
Definition k_lookalike : bytes := pfx ++ [47;112;111;100;115] ++ events_sub ++ [112].  (* "/r/pods/events/p" *)
Definition k_plain : bytes := pfx ++ [47;112;111;100;115;47;97].                        (* "/r/pods/a" *)
Definition exS : store :=
  [RIdx k_event 5 false; RVer k_event 5 [1]; RIdx k_lookalike 6 false; RVer k_lookalike 6 [2];
   RIdx k_plain 7 false; RVer k_plain 7 [3]].
(* marks: (7, t=0); now = 400, ttl = 300: timeout revision 7 *)
Definition exRun := scanner_compact (events_prefix pfx) false 300 400 9 (pfx ++ [47]) (pfx ++ [48]) [(7, 0)] (init_d exS []).

(* the former defect (fixed: C17-F1): the substring test bytes.Contains(key, "/events/") also matched a pod in a
   namespace called events; the prefix test does not, and the look-alike survives the pass that expires the Event *)
Example C17_ex_lookalike_survives :
  contains events_sub k_lookalike = true /\ is_event_key pfx k_lookalike = false /\
  create_ttl 3600 pfx k_lookalike = 0 /\ create_ttl 3600 pfx k_event = 3600 /\
  d_store (snd exRun) = [RIdx k_lookalike 6 false; RVer k_lookalike 6 [2]; RIdx k_plain 7 false; RVer k_plain 7 [3]].
Proof. vm_compute. repeat split. Qed.

(* C17_not_young, the queue: what getTimeoutRevision pops is at least ttl old, and it returns the last popped *)
Theorem C17_not_young_marks : forall ttl now q prev,
  let '(tr, q') := pop_marks ttl now q prev in
  (tr = prev \/ exists t, In (tr, t) q /\ ttl <= now - t) /\
  (exists popped, q = popped ++ q' /\ Forall (fun m => ttl <= now - snd m) popped).
Proof. exact pop_marks_spec. Qed.
Print Assumptions C17_not_young_marks.

(* C17_whole: every record of an Event key in the range at or below the timeout revision (in a
   well-formed store: index revision <= timeout revision) => one fault-free pass removes index and versions
   together; Get(latest) = absent; Create succeeds with normal semantics; nothing else is added *)
Theorem C17_whole : forall evp R tr lo hi V k,
  tr <> 0 -> is_expirable evp k = true -> bleb lo k && bltb k hi = true ->
  (forall x, In x V -> rkey x = k -> rec_rev x <= tr) ->
  let d := compact_range_e evp R tr lo hi (init_d V []) in
  (forall x, In x (d_store d) -> rkey x <> k) /\
  (forall x, In x (d_store d) -> In x V) /\
  get_at (d_store d) max_rev k = None /\
  forall v n, do_create (d_store d) k v n = (d_store d ++ [RIdx k n false; RVer k n v], WOk).
Proof. exact expiry_whole. Qed.
Print Assumptions C17_whole.

(* C17_others_untouched: whatever deletes fail or wherever the pass dies, a stored record that is neither
   an expiry target (key under the events prefix, revision <= timeout revision) nor a compaction target
   (C07) is still stored afterwards: non-event keys, Events with a newer index, young versions *)
Theorem C17_others_untouched : forall evp sup ttl now R lo hi q V os,
  idx_unique V ->
  let '(q', tr, d) := scanner_compact evp sup ttl now R lo hi q (init_d V (map (fun o => ([], o)) os)) in
  forall y, In y V -> ~ expiry_target evp tr y -> ~ compaction_target R y -> In y (d_store d).
Proof. exact scanner_others_untouched. Qed.
Print Assumptions C17_others_untouched.

(* the expired INDEX is removed by compare-and-delete with the value the scan saw, the versions by plain
   delete. For any writers' commits just before the call: what the call takes away shares the target's slot
   and the target itself was what the engine held (with one index per key: it IS the target) *)
Theorem C17_index_removed_only_as_seen : forall R x d adds o rest y,
  d_oc d = (adds, o) :: rest -> d_dead d = false -> skipped (d_lf d) (rkey x) = false ->
  In y (apply_env adds (d_store d)) -> ~ In y (d_store (engine_delete R KDelCur x d)) ->
  same_slot x y = true /\ In x (apply_env adds (d_store d)).
Proof. exact delcur_only_seen. Qed.
Print Assumptions C17_index_removed_only_as_seen.

(* an Update of the Event that lands between the scan's snapshot and the removal of its index survives:
   the compare fails, the fresh index and version stay (the old versions <= timeout revision go) *)
Theorem C17_update_in_window_survives : forall R k r d n v d0 rest,
  n <> r -> d_oc d0 = ([RIdx k n false; RVer k n v], OOk) :: rest ->
  d_dead d0 = false -> skipped (d_lf d0) k = false ->
  let d' := engine_delete R KDelCur (RIdx k r d) d0 in
  In (RIdx k n false) (d_store d') /\ In (RVer k n v) (d_store d') /\
  (exists sf, d_trace d' = mkStep KDelCur (RIdx k r d) OFailCond sf :: d_trace d0).
Proof. exact expiry_respects_update. Qed.
Print Assumptions C17_update_in_window_survives.

(* engine-side TTL. Badger (as modelled: an overwrite replaces the entry's expiry): an entry that
   disappears had an expiry, and it has passed *)
Theorem C17_badger_ttl_not_young : forall now s y,
  In y (ts_store s) -> ~ In y (ts_store (advance EBadger now s)) -> t_exp y <> 0 /\ t_exp y <= now.
Proof. exact badger_advance_old. Qed.
Print Assumptions C17_badger_ttl_not_young.

(* C17_whole on the engine-TTL path (Badger as modelled): a creation writes its index record and its version record
   with the same ttl - in each of the creator's batches: put-if-absent, re-create after Get, compare-and-swap over a
   tombstoned index (the ttl arguments are observed by the driver's ttl-choice cases, fresh and re-created) - so
   once the ttl has passed neither is left, whatever was stored before *)
Theorem C17_whole_engine_ttl : forall t ttl k rev v s now,
  ttl <> 0 -> t + ttl <= now ->
  let s' := put_ent EBadger t ttl (RVer k rev v) (put_ent EBadger t ttl (RIdx k rev false) s) in
  ~ In (RIdx k rev false) (map t_rec (ts_store (advance EBadger now s'))) /\
  ~ In (RVer k rev v) (map t_rec (ts_store (advance EBadger now s'))).
Proof. exact badger_create_whole. Qed.
Print Assumptions C17_whole_engine_ttl.

(* memkv: the timer of a write removes the record it was armed for and nothing else. The index of a create under a
   2 s TTL, replaced 1 s later by an update: the update's index is still there when the create's timer has fired
   (the former defect C17-F2, fixed: the timer used to delete whatever the key held); left alone, the create's own
   index goes at 2 s *)
Theorem C17_memkv_ttl_own_record : forall now s y,
  In y (ts_store s) ->
  (In y (ts_store (advance EMem now s)) <-> ~ exists p, In p (ts_timers s) /\ fst p <= now /\ snd p = t_rec y).
Proof. exact emem_timer_own_record. Qed.
Print Assumptions C17_memkv_ttl_own_record.

(* the former witness of C17-F2 *)
Example C17_ex_memkv_ttl_own_record :
  let s1 := put_ent EMem 0 2000 (RIdx k_event 5 false) (mkTS [] []) in
  let s2 := put_ent EMem 1000 0 (RIdx k_event 6 false) s1 in
  map t_rec (ts_store (advance EMem 1300 s2)) = [RIdx k_event 6 false] /\
  map t_rec (ts_store (advance EMem 2500 s2)) = [RIdx k_event 6 false] /\
  map t_rec (ts_store (advance EMem 1300 s1)) = [RIdx k_event 5 false] /\
  map t_rec (ts_store (advance EMem 2500 s1)) = [].
Proof. vm_compute. repeat split. Qed.

(* the executable oracle accepts what the model produces: the TTL-choice cases *)
Theorem C17_oracle_sound_ttl_choice : forall prefix ettl k ttls,
  c17_check (KTtlChoice prefix ettl k ttls) = true -> c17_oracle (KTtlChoice prefix ettl k ttls) = None.
Proof. exact c17_oracle_sound_ttl_choice. Qed.
Print Assumptions C17_oracle_sound_ttl_choice.

(* ... and for the TTL arguments of every Create / Update / Delete, whatever Lease the request carries *)
Theorem C17_oracle_sound_ttl_write : forall prefix ettl op lease k ttls,
  c17_check (KTtlWrite prefix ettl op lease k ttls) = true -> c17_oracle (KTtlWrite prefix ettl op lease k ttls) = None.
Proof. exact c17_oracle_sound_ttl_write. Qed.
Print Assumptions C17_oracle_sound_ttl_write.

(* ... the engine-TTL cases, dump clause: on a history the model reproduces (every dump equals the model's store
   at that time; wall times non-decreasing, every write with its own, larger revision) every record missing from a
   dump belongs to an Event key and its latest write is at least ttl old - on memkv (a timer per write, removing only
   the record it was armed for) and on Badger (entry expiry) alike *)
Theorem C17_oracle_sound_engine_ttl_dumps : forall e prefix ttl_ms evs V,
  mono 0 0 evs -> ttl_run e prefix ttl_ms (mkTS [] []) evs = Some V ->
  ttl_oracle e prefix ttl_ms [] evs = None.
Proof. exact ttl_oracle_sound. Qed.
Print Assumptions C17_oracle_sound_engine_ttl_dumps.

(* ... the whole engine-TTL case, final Get / Create probes included, when the store the history ends in
   satisfies the relaxed well-formedness (C07) and the probes' revisions are above everything stored *)
Theorem C17_oracle_sound_engine_ttl : forall e prefix ttl_ms evs fin,
  mono 0 0 evs ->
  (forall V, ttl_run e prefix ttl_ms (mkTS [] []) evs = Some V ->
             wfd V /\ fresh V 1000000 /\ 1000000 + N.of_nat (length fin) <= max_rev) ->
  c17_check (KEngineTtl e prefix ttl_ms evs fin) = true ->
  c17_oracle (KEngineTtl e prefix ttl_ms evs fin) = None.
Proof. exact c17_engine_ttl_sound. Qed.
Print Assumptions C17_oracle_sound_engine_ttl.

(* ... the scanner cases, the two tests the oracle applies to an expiry removal. The code pops marks from a
   queue; the oracle keeps every mark ever pushed and takes the largest revision among those at least ttl old:
   the queue stays within the oracle's marks and the timeout revision is 0 or at most the oracle's bound *)
Theorem C17_oracle_marks : forall evp sup ttl now R lo hi q d0 marks,
  incl q marks ->
  let '(q', tr, d) := scanner_compact evp sup ttl now R lo hi q d0 in
  incl q' (marks ++ [(R, now)]) /\
  (tr = 0 \/ exists m, old_mark_rev ttl now (marks ++ [(R, now)]) = Some m /\ tr <= m).
Proof. exact scanner_marks. Qed.
Print Assumptions C17_oracle_marks.

(* hence every engine delete of scanner.Compact - any outcomes, any writers interleaved - is a compaction target
   (C07's business) or targets a stored record that passes expiry_verdict's only-events and not-young tests *)
Theorem C17_oracle_expiry_tests : forall prefix sup ttl now R lo hi q V oc marks,
  incl q marks ->
  let '(q', tr, d) := scanner_compact (events_prefix prefix) sup ttl now R lo hi q (init_d V oc) in
  Forall (fun s => compaction_target R (ds_target s) \/
                   (In (ds_target s) V /\ negb (is_event_key prefix (rkey (ds_target s))) = false /\
                    exists m, old_mark_rev ttl now (marks ++ [(R, now)]) = Some m /\
                              negb (rec_rev (ds_target s) <=? m) = false)) (d_trace d).
Proof. exact scanner_expiry_tests. Qed.
Print Assumptions C17_oracle_expiry_tests.

(* ---------- scanner histories (KScan) ---------- *)

(* what a pass without interleaved writers and engine faults removes, and nothing else: every record of the store it started
   from is still stored, or lies in the scanned range and either is an expiry target (a record of a key under the events
   prefix, at most as new as the timeout revision) or is explained by the compaction proper (a version with a newer version
   <= R, a tombstone <= R, a flagged index <= R - the oracle's `explained`); nothing appears. In particular the only live
   version of a key outside <prefix>/events/ is never removed *)
Theorem C17_pass_removed : forall evp sup ttl now R lo hi q V0,
  store_ok V0 -> wfd V0 ->
  let '(q', tr, dd) := scanner_compact evp sup ttl now R lo hi q (init_d V0 []) in
  (forall y, In y (d_store dd) -> In y V0) /\
  (forall y, In y V0 -> In y (d_store dd) \/
     ((expiry_target evp tr y \/ explained R V0 y = true) /\ in_range lo hi y = true)).
Proof. exact pass_removed. Qed.
Print Assumptions C17_pass_removed.

(* `whole` under engine faults is eventual: a pass in which engine deletes fail (any outcomes) may leave an expired key half
   removed - the index gone, a version still stored, the key still readable (C17_conditional_delete_needed); a later
   fault-free pass whose timeout revision covers what is left removes it completely: the key reads absent and can be
   created again. Reproduced on the real scanner (memkv and TiKV mock, c17 driver with VERIF_C17_FAULT=1: the delete of the
   Event's version fails after its index was removed; the key reads present until the first pass that comes at least TTL
   after the failing one - the pass in between has timeout revision 0, the old marks having been popped - and absent from
   then on): a transient, not a finding *)
Theorem C17_whole_eventually : forall evp R1 tr1 R2 tr2 lo hi V k (os : list outcome),
  idx_unique V ->
  tr2 <> 0 -> is_expirable evp k = true -> bleb lo k && bltb k hi = true ->
  (forall x, In x V -> rkey x = k -> rec_rev x <= tr2) ->
  let d1 := compact_range_e evp R1 tr1 lo hi (init_d V (map (fun o => ([], o)) os)) in
  let d2 := compact_range_e evp R2 tr2 lo hi (init_d (d_store d1) []) in
  (forall x, In x (d_store d1) -> In x V) /\
  (forall x, In x (d_store d2) -> rkey x <> k) /\
  get_at (d_store d2) max_rev k = None /\
  forall v n, do_create (d_store d2) k v n = (d_store d2 ++ [RIdx k n false; RVer k n v], WOk).
Proof. exact whole_eventually. Qed.
Print Assumptions C17_whole_eventually.

(* such a pass, judged by the oracle's pass_verdict (every missing record explained or an Event record not younger than a mark
   that is TTL old, an expired index gone with every version of its key - from the relaxed well-formedness: no version is
   newer than the index -, nothing appeared): nothing to report, and the mark queue stays within the oracle's marks *)
Theorem C17_pass_sound : forall prefix sup ttl now R lo hi q V0 marks,
  store_ok V0 -> wfd V0 -> incl q marks ->
  let '(q', tr, dd) := scanner_compact (events_prefix prefix) sup ttl now R lo hi q (init_d V0 []) in
  pass_verdict prefix ttl V0 (sort_by rec_ltb (d_store dd)) (marks ++ [(R, now)]) now R [] = None /\
  incl q' (marks ++ [(R, now)]).
Proof. exact pass_sound. Qed.
Print Assumptions C17_pass_sound.

(* a whole history of writes and passes (direct or through Backend.Compact), then the probes Get / Update at the revision read /
   Create per key: if every pass is plain and starts from a store with records in distinct slots that satisfies the relaxed
   well-formedness (scan_validb, decided on the observed dumps), and so does the final store (scan_final_validb), then a
   history the model reproduces has nothing for the oracle to report *)
Theorem C17_oracle_sound_scan : forall prefix ttl sup pre steps fin extra,
  scan_validb pre steps = true -> scan_final_validb (store_after pre steps) fin = true ->
  c17_check (KScan prefix ttl sup pre steps fin extra) = true ->
  c17_oracle (KScan prefix ttl sup pre steps fin extra) = None.
Proof. exact kscan_sound. Qed.
Print Assumptions C17_oracle_sound_scan.

(* validity is decided and evaluated: what the shards compute on every generated case, c17_check_v = c17_validb && c17_check
   (for the engine-TTL cases: wall times non-decreasing, every write with its own larger revision, the store the history
   ends in well-formed (decided by wfdb) and below the probes' revisions), puts every case of a claimed kind - TTL choice,
   scanner histories without a writer inside a pass, TTL arguments of a write, engine TTL; the scanner histories with an update inside a pass (the window scripts) are not claimed - under its soundness theorem. A generated
   case that is not valid counts as a mismatch of the run *)
Theorem C17_oracle_sound_evaluated : forall c, c17_check_v c = true -> c17_claimed c = true -> c17_oracle c = None.
Proof. exact c17_oracle_sound_v. Qed.
Print Assumptions C17_oracle_sound_evaluated.

(* a compaction through Backend.Compact(req) at committed revision cur (step SCompactReq): pass and mark are at
   clamp cur 0 req, never above the committed revision - a request ahead of it cannot cover revisions not handed out yet -
   and C17_oracle_marks / C17_oracle_expiry_tests hold for that step as they do for a direct scanner.Compact *)
Theorem C17_oracle_marks_req : forall evp sup ttl now cur req lo hi q d0 marks,
  incl q marks ->
  let R := clamp cur 0 req in
  R <= cur /\
  let '(q', tr, d) := scanner_compact evp sup ttl now R lo hi q d0 in
  incl q' (marks ++ [(R, now)]) /\
  (tr = 0 \/ exists m, old_mark_rev ttl now (marks ++ [(R, now)]) = Some m /\ tr <= m).
Proof. exact scanner_marks_req. Qed.
Print Assumptions C17_oracle_marks_req.

Theorem C17_oracle_expiry_tests_req : forall prefix sup ttl now cur req lo hi q V oc marks,
  incl q marks ->
  let R := clamp cur 0 req in
  let '(q', tr, d) := scanner_compact (events_prefix prefix) sup ttl now R lo hi q (init_d V oc) in
  Forall (fun s => compaction_target R (ds_target s) \/
                   (In (ds_target s) V /\ negb (is_event_key prefix (rkey (ds_target s))) = false /\
                    exists m, old_mark_rev ttl now (marks ++ [(R, now)]) = Some m /\
                              negb (rec_rev (ds_target s) <=? m) = false)) (d_trace d).
Proof. exact scanner_expiry_tests_req. Qed.
Print Assumptions C17_oracle_expiry_tests_req.

(* ---------- non-vacuity ---------- *)
Example C17_ex_run :
  fst exRun = ([(9, 400)], 7) /\
  map (fun s => (ds_kind s, ds_target s)) (rev (d_trace (snd exRun)))
  = [(KDelCur, RIdx k_event 5 false); (KDel, RVer k_event 5 [1])].
Proof. vm_compute. repeat split. Qed.

Example C17_ex_whole_hyps :
  7 <> 0 /\ is_expirable (events_prefix pfx) k_event = true /\ bleb (pfx ++ [47]) k_event && bltb k_event (pfx ++ [48]) = true /\
  (forall x, In x exS -> rkey x = k_event -> rec_rev x <= 7).
Proof.
  split; [discriminate|]. split; [vm_compute; reflexivity|]. split; [vm_compute; reflexivity|].
  intros x Hx Hk. cbn in Hx. repeat (destruct Hx as [<-|Hx]; [cbn [rec_rev]; try lia; vm_compute in Hk; discriminate|]). destruct Hx.
Qed.

(* the update-in-window run end to end: e (rev 5) is expiring, the Update to rev 10 lands before the first
   engine delete: the index compare fails, version 5 goes, index 10 and version 10 stay; the key reads the
   new value, Update from 10 succeeds, Create is refused *)
Definition exWin :=
  scanner_compact (events_prefix pfx) false 300 400 9 (pfx ++ [47]) (pfx ++ [48]) [(7, 0)]
    (init_d [RIdx k_event 5 false; RVer k_event 5 [1]] [([RIdx k_event 10 false; RVer k_event 10 [2]], OOk)]).
Example C17_ex_window :
  sort_by rec_ltb (d_store (snd exWin)) = [RIdx k_event 10 false; RVer k_event 10 [2]] /\
  map (fun s => (ds_kind s, ds_target s, ds_out s)) (rev (d_trace (snd exWin)))
  = [(KDelCur, RIdx k_event 5 false, OFailCond); (KDel, RVer k_event 5 [1], OOk)] /\
  get_at (d_store (snd exWin)) max_rev k_event = Some (10, [2]) /\
  snd (do_update (d_store (snd exWin)) k_event [3] 10 11) = WOk /\
  snd (do_create (d_store (snd exWin)) k_event [3] 11) = WFalse.
Proof. vm_compute. repeat split. Qed.

(* the compare is load-bearing: an unconditional delete of the index there leaves "index gone, fresh version
   left": the key still reads the new value, but Update from it is refused and Create succeeds *)
Example C17_conditional_delete_needed :
  let V1 := apply_env [RIdx k_event 10 false; RVer k_event 10 [2]] [RIdx k_event 5 false; RVer k_event 5 [1]] in
  let bad := del_slot (RVer k_event 5 [1]) (del_slot (RIdx k_event 5 false) V1) in
  get_at bad max_rev k_event = Some (10, [2]) /\
  snd (do_update bad k_event [3] 10 11) = WFalse /\ snd (do_create bad k_event [3] 11) = WOk.
Proof. vm_compute. repeat split. Qed.

(* many marks inside one TTL window: each keeps its own time. 70 marks at t=0..69 (revision 5), an Event
   created at revision 8, a mark (8, 350); at t=760 with ttl=600 the burst is popped (timeout revision 5: e
   goes) but the mark of 350 is not (e8 stays); at t=1500 it is *)
Definition burst : list mark := map (fun i => (5, N.of_nat i)) (seq 0 70).
Definition k_event8 : bytes := pfx ++ events_sub ++ [110;47;102].
Example C17_ex_burst :
  let V := [RIdx k_event 5 false; RVer k_event 5 [1]; RIdx k_event8 8 false; RVer k_event8 8 [2]] in
  let '(q1, tr1, d1) := scanner_compact (events_prefix pfx) false 600 760 9 (pfx ++ [47]) (pfx ++ [48]) (burst ++ [(8, 350)]) (init_d V []) in
  let '(q2, tr2, d2) := scanner_compact (events_prefix pfx) false 600 1500 9 (pfx ++ [47]) (pfx ++ [48]) q1 (init_d (d_store d1) []) in
  tr1 = 5 /\ q1 = [(8, 350); (9, 760)] /\ d_store d1 = [RIdx k_event8 8 false; RVer k_event8 8 [2]] /\
  tr2 = 9 /\ d_store d2 = [].
Proof. vm_compute. repeat split. Qed.

(* a young Event (index above the timeout revision) and a mark younger than the TTL: nothing expires *)
Example C17_ex_young :
  d_store (snd (scanner_compact (events_prefix pfx) false 300 200 9 (pfx ++ [47]) (pfx ++ [48]) [(7, 0)] (init_d exS []))) = exS /\
  d_store (snd (scanner_compact (events_prefix pfx) false 300 400 9 (pfx ++ [47]) (pfx ++ [48]) [(4, 0)] (init_d exS []))) = exS /\
  d_store (snd (scanner_compact (events_prefix pfx) true 300 400 9 (pfx ++ [47]) (pfx ++ [48]) [(7, 0)] (init_d exS []))) = exS.
Proof. vm_compute. repeat split. Qed.

Example C17_ex_idx_unique : idx_unique exS.
Proof.
  intros k r d r' d' H1 H2. cbn in H1, H2.
  repeat match goal with
         | H : _ \/ _ |- _ => destruct H as [H|H]
         | H : False |- _ => destruct H
         | H : RVer _ _ _ = RIdx _ _ _ |- _ => discriminate H
         end; cbv in H1, H2; split; congruence.
Qed.

(* create, delete, create of an Event with no compaction in between, left alone past the TTL, on Badger: index and
   versions of the re-creation expire together (the tombstone, written without a TTL, stays); the key reads absent
   and Create succeeds. Had the index been swapped in over the tombstone with ttl 0 it would stay for good: the key
   would read absent and refuse every Create *)
Example C17_ex_recreate_expires :
  let evs := [TCreate 0 k_event [1] 5; TDelete 150 k_event 6; TCreate 300 k_event [2] 7] in
  let run := fun dumpt => ttl_run EBadger pfx 2000 (mkTS [] []) (evs ++ [TDump dumpt []]) in
  ttl_run EBadger pfx 2000 (mkTS [] []) (evs ++ [TDump 2900 [RVer k_event 6 tombstone]]) = Some [RVer k_event 6 tombstone] /\
  get_at [RVer k_event 6 tombstone] max_rev k_event = None /\ snd (do_create [RVer k_event 6 tombstone] k_event [3] 8) = WOk /\
  (* the defective variant: index with ttl 0 *)
  let bad := advance EBadger 2900 (put_ent EBadger 300 2000 (RVer k_event 7 [2]) (put_ent EBadger 300 0 (RIdx k_event 7 false)
               (put_ent EBadger 150 0 (RVer k_event 6 tombstone) (mkTS [] [])))) in
  let Vbad := sort_by rec_ltb (map t_rec (ts_store bad)) in
  get_at Vbad max_rev k_event = None /\ snd (do_create Vbad k_event [3] 8) = WFalse.
Proof. vm_compute. repeat split. Qed.

(* C17_oracle_sound_engine_ttl's hypotheses are satisfiable: the history above, ending in the lone tombstone *)
Example C17_ex_engine_ttl_sound_applies :
  let evs := [TCreate 0 k_event [1] 5; TDelete 150 k_event 6; TCreate 300 k_event [2] 7; TDump 2900 [RVer k_event 6 tombstone]] in
  let fin := [(k_event, None, WOk)] in
  mono 0 0 evs /\
  (forall V, ttl_run EBadger pfx 2000 (mkTS [] []) evs = Some V ->
             wfd V /\ fresh V 1000000 /\ 1000000 + N.of_nat (length fin) <= max_rev) /\
  c17_check (KEngineTtl EBadger pfx 2000 evs fin) = true /\
  c17_oracle (KEngineTtl EBadger pfx 2000 evs fin) = None.
Proof.
  cbv zeta. split; [cbn; repeat split; lia|]. split; [|split; vm_compute; reflexivity].
  intros V HV. vm_compute in HV. injection HV as <-. split; [|split; [|vm_compute; discriminate]].
  - split; [|split].
    + intros k r d r' d' [H|[]]. discriminate H.
    + intros k r v v' [H|[]] [H'|[]]. congruence.
    + intros k. split; [|split].
      * intros r [H|[]]. discriminate H.
      * intros r [H|[]]. discriminate H.
      * intros _. destruct (beqb k k_event) eqn:E.
        -- apply beqb_eq in E. subst k. right. exists 6. split; [left; reflexivity|]. intros r' v' [H|[]]. inversion H; subst. lia.
        -- left. intros r v [H|[]]. inversion H; subst. rewrite beqb_refl in E. discriminate.
  - split; [vm_compute; discriminate|]. split.
    + intros k r v [H|[]]. inversion H; subst. lia.
    + intros k r d [H|[]]. discriminate H.
Qed.

(* the former witness of C17-F2 as a history on memkv: an Event created under a 2 s TTL and updated 1 s later keeps the
   update's index and version when the create's timers have fired; only the create's own version goes *)
Example C17_ex_memkv_update_survives :
  let evs := [TCreate 0 k_event [1] 5; TUpdate 1000 k_event [2] 6;
              TDump 1300 [RIdx k_event 6 false; RVer k_event 5 [1]; RVer k_event 6 [2]];
              TDump 2500 [RIdx k_event 6 false; RVer k_event 6 [2]]] in
  mono 0 0 evs /\
  ttl_run EMem pfx 2000 (mkTS [] []) evs = Some [RIdx k_event 6 false; RVer k_event 6 [2]] /\
  c17_oracle (KEngineTtl EMem pfx 2000 evs [(k_event, Some (6, [2]), WFalse)]) = None.
Proof. cbv zeta. split; [cbn; repeat split; lia|]. split; vm_compute; reflexivity. Qed.

(* a request 50 revisions ahead of the committed one leaves its mark at the committed revision *)
Example C17_ex_request_ahead : clamp 102 0 152 = 102 /\ clamp 104 0 0 = 104 /\ clamp 104 0 101 = 101.
Proof. vm_compute. repeat split. Qed.

Example C17_ex_validb :
  let evs := [TCreate 0 k_event [1] 5; TDelete 150 k_event 6; TCreate 300 k_event [2] 7; TDump 2900 [RVer k_event 6 tombstone]] in
  let c := KEngineTtl EBadger pfx 2000 evs [(k_event, None, WOk)] in
  c17_validb c = true /\ c17_check_v c = true /\ c17_claimed c = true /\
  c17_check_v (KTtlWrite pfx 2 1 5 k_plain [0; 0]) = true /\ c17_claimed (KScan pfx 300 false [] [SCompact 0 7 [] [] [([], OOk)] ([], [])] [] 0) = false.
Proof. vm_compute. repeat split. Qed.

(* a scanner history under C17_oracle_sound_scan: the Event expires at the second pass, the look-alike and the plain key stay *)
Definition exS2 : store := sort_by rec_ltb exS.
Example C17_ex_scan_case :
  let lo := pfx ++ [47] in let hi := pfx ++ [48] in
  let c := KScan pfx 300 false exS2 [SCompact 0 7 lo hi [] ([], []); SCompact 400 9 lo hi [] ([0; 1], [])]
             [(k_event, None, None, WOk); (k_plain, Some (7, [3]), Some WOk, WFalse)] 0 in
  c17_claimed c = true /\ c17_validb c = true /\ c17_check_v c = true /\ c17_oracle c = None.
Proof. vm_compute. repeat split. Qed.

(* hypotheses of the engine-TTL theorems on concrete states; ttl = 0 pops every mark at once *)
Example C17_ex_badger_hyps :
  let s := put_ent EBadger 0 2000 (RVer k_event 5 [1]) (put_ent EBadger 0 2000 (RIdx k_event 5 false) (mkTS [] [])) in
  2000 <> 0 /\ 0 + 2000 <= 2900 /\
  In (mkT (RIdx k_event 5 false) 0 2000) (ts_store s) /\ ~ In (mkT (RIdx k_event 5 false) 0 2000) (ts_store (advance EBadger 2900 s)) /\
  map t_rec (ts_store (advance EBadger 1900 s)) = [RIdx k_event 5 false; RVer k_event 5 [1]].
Proof. cbv zeta. split; [discriminate|]. split; [vm_compute; discriminate|]. split; [vm_compute; auto|]. split; [vm_compute; intros []|vm_compute; reflexivity]. Qed.
Example C17_ex_memkv_hyps :
  let s := put_ent EMem 1000 0 (RIdx k_event 6 false) (put_ent EMem 0 2000 (RIdx k_event 5 false) (mkTS [] [])) in
  In (mkT (RIdx k_event 6 false) 1000 0) (ts_store s) /\
  ~ (exists p, In p (ts_timers s) /\ fst p <= 2500 /\ snd p = t_rec (mkT (RIdx k_event 6 false) 1000 0)).
Proof.
  cbv zeta. split; [vm_compute; auto|]. intros (p & Hp & _ & Ep). vm_compute in Hp. destruct Hp as [<-|[]]. discriminate Ep.
Qed.
Example C17_ex_ttl_zero : pop_marks 0 5 [(7, 9); (8, 3)] 0 = (8, []) /\ incl [(7, 0)] [(7, 0); (9, 400)].
Proof. split; [vm_compute; reflexivity|intros x [<-|[]]; left; reflexivity]. Qed.
(* the hypotheses of C17_index_removed_only_as_seen: a writer replaces the index just before the compare-and-delete *)
Example C17_ex_index_as_seen :
  let d := mkD exS exS [] [([RIdx k_event 8 false; RVer k_event 8 [9]], OOk)] false [] in
  d_oc d = ([RIdx k_event 8 false; RVer k_event 8 [9]], OOk) :: [] /\ d_dead d = false /\ skipped (d_lf d) k_event = false /\
  In (RIdx k_plain 7 false) (apply_env [RIdx k_event 8 false; RVer k_event 8 [9]] (d_store d)) /\
  In (RIdx k_event 8 false) (d_store (engine_delete 9 KDelCur (RIdx k_event 5 false) d)).
Proof. vm_compute. repeat split; auto 12. Qed.

(* the hypotheses of C17_only_events_safe on the example pass, and what it concludes there *)
Example C17_ex_only_events_safe :
  store_ok exS2 /\ uniq_ver (exS2 ++ flat_map fst (@nil (list rec * outcome))) /\
  let '(_, tr, d) := scanner_compact (events_prefix pfx) false 300 400 9 (pfx ++ [47]) (pfx ++ [48]) [(7, 0)] (init_d exS2 []) in
  tr = 7 /\ map (fun s => (ds_target s, ds_safe s)) (rev (d_trace d)) = [(RIdx k_event 5 false, true); (RVer k_event 5 [1], false)].
Proof.
  split; [apply store_okb_spec; vm_compute; reflexivity|]. split; [|vm_compute; split; reflexivity].
  rewrite app_nil_r. apply uniq_verb_spec. vm_compute. reflexivity.
Qed.

(* C17_whole_eventually on the example: the first pass removes the Event's index, its delete of the version fails (the key
   still reads present); the second, fault-free, pass removes the version *)
Example C17_ex_whole_eventually :
  let lo := pfx ++ [47] in let hi := pfx ++ [48] in
  let d1 := compact_range_e (events_prefix pfx) 9 7 lo hi (init_d exS2 (map (fun o => ([], o)) [OOk; OFailOther])) in
  let d2 := compact_range_e (events_prefix pfx) 9 9 lo hi (init_d (d_store d1) []) in
  filter (fun x => beqb (rkey x) k_event) (d_store d1) = [RVer k_event 5 [1]] /\
  get_at (d_store d1) max_rev k_event = Some (5, [1]) /\
  filter (fun x => beqb (rkey x) k_event) (d_store d2) = [] /\ get_at (d_store d2) max_rev k_event = None.
Proof. vm_compute. repeat split. Qed.
