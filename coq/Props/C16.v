(* C16 — The etcd-facing API answers Kubernetes' requests as etcd would.
   Property theorems only: each is closed by `exact <lemma>` and followed by Print Assumptions.

   Reading guide.  [shim_txn]/[shim_range] are the model of pkg/server/etcd (recognisers + response
   shaping) over the sequential backend model; [etcd_txn]/[etcd_range] are the reference interpreter.
   The interpreter is run with the revision the shim deals for the same request ([Z.of_N (b_rev sb) + 1]):
   KubeBrain burns a revision per failed attempt, etcd does not, and etcd's behaviour depends on
   revisions only through comparisons — this is the "one monotone renaming of revisions".
   [proj_txn]/[proj_range] are the property's projection {Succeeded; the kvs of the range operations of
   the executed branch (key, value, mod revision); prev_kv where asked for; kvs order; Count; More}. *)
From KB Require Import Model.Etcd Model.C16Cases Proofs.Etcd Proofs.EtcdSim Proofs.EtcdRead Proofs.EtcdHist Proofs.EtcdWatch.
Local Open Scope Z_scope.

(* ---- full statements (every history of the four shapes with zero/correct/stale expected revisions,
   every point and range read at the latest revision) — refuted by the faithful model *)

Definition C16_supported_full_statement : Prop := supported_full_statement.

Theorem C16_supported_full_refuted : ~ C16_supported_full_statement.
Proof. exact supported_full_refuted. Qed.
Print Assumptions C16_supported_full_refuted.

(* ---- the complement of the findings, over all histories *)

(* every history of in-scope requests from the empty store: the projected responses of the shim
   equal the interpreter's, no request is rejected, and afterwards both stores list the same keys,
   values and mod revisions in the same order *)
Theorem C16_supported : forall base qs,
  in_scope_run (b_init base) (e_init (Z.of_N base)) qs ->
  let '(sb', se', ps) := run_both (b_init base) (e_init (Z.of_N base)) qs in
  Forall (fun p => fst p = snd p) ps /\ (forall p, In p ps -> fst p <> PT None)
  /\ map pk (e_cur se') = b_proj (b_kv sb') (b_rev sb').
Proof. exact supported_from_init. Qed.
Print Assumptions C16_supported.

(* the same from any pair of related states, with the relation re-established (so that it composes) *)
Theorem C16_supported_step : forall qs sb se, R sb se -> in_scope_run sb se qs ->
  let '(sb', se', ps) := run_both sb se qs in
  Forall (fun p => fst p = snd p) ps /\ (forall p, In p ps -> fst p <> PT None) /\ R sb' se'.
Proof. exact supported_run. Qed.
Print Assumptions C16_supported_step.

(* per shape, for every expected revision from zero to the next revision *)
Theorem C16_create : forall sb se k v u lease,
  R sb se -> bounded sb -> k <> [] -> v <> tombstone -> union_mod u = 0 ->
  sim_ok (q_create k v u lease) sb se.
Proof. exact sim_create. Qed.
Print Assumptions C16_create.
Theorem C16_update : forall sb se k v u lease lim,
  R sb se -> bounded sb -> k <> [] -> v <> tombstone ->
  0 <= union_mod u <= Z.of_N (b_rev sb) + 1 -> sim_ok (q_update k v u lease lim) sb se.
Proof. exact sim_update_scope. Qed.
Print Assumptions C16_update.
Theorem C16_delete : forall sb se k u lim,
  R sb se -> bounded sb -> k <> [] -> 0 < union_mod u <= Z.of_N (b_rev sb) + 1 -> sim_ok (q_delete k u lim) sb se.
Proof. exact sim_delete_scope. Qed.
Print Assumptions C16_delete.
Theorem C16_delete_unguarded : forall sb se k lim y,
  R sb se -> bounded sb -> k <> [] -> e_find k (e_cur se) = Some y -> sim_ok (q_deleteu k lim) sb se.
Proof. exact sim_deleteu_live. Qed.
Print Assumptions C16_delete_unguarded.

(* reads at the latest revision: kvs in order with keys, values (also empty ones), mod revisions; Count; More *)
Theorem C16_get : forall sb se k lim, R sb se -> bounded sb -> k <> [] ->
  proj_range (shim_range sb (mkRange k [] lim 0 false false)) = proj_range (etcd_range se (mkRange k [] lim 0 false false)).
Proof. exact sim_get. Qed.
Print Assumptions C16_get.
Theorem C16_list : forall sb se a b limit,
  R sb se -> bounded sb -> a <> [] -> b <> [] -> b <> [0%N] -> bltb a b = true ->
  limit + 1 < two63 -> (limit <= 0 \/ lenZ (e_range (e_cur se) a b) <= limit + 1) ->
  proj_range (shim_range sb (list_req a b limit)) = proj_range (etcd_range se (list_req a b limit)).
Proof. exact sim_list. Qed.
Print Assumptions C16_list.
Theorem C16_count : forall sb se a b,
  R sb se -> bounded sb -> a <> [] -> b <> [] -> b <> [0%N] -> lenZ (e_range (e_cur se) a b) < two63 ->
  proj_range (shim_range sb (count_req a b)) = proj_range (etcd_range se (count_req a b)).
Proof. exact sim_count. Qed.
Print Assumptions C16_count.

(* watch: the shim's event log and the interpreter's agree on kind, key, value, mod revision and,
   for deletes, the previous kv — in every state reachable by in-scope histories (R is preserved) *)
Theorem C16_watch_events : forall sb se, R sb se ->
  map proj_event (e_events se) = map proj_event (map shim_event (b_events sb)).
Proof. exact events_agree. Qed.
Print Assumptions C16_watch_events.

(* a prefix watch from any start revision: the same events (kind, key, value, mod revision, previous kv on
   deletes) in the same order on both sides; the event log's well-formedness is kept by EVERY transaction *)
Theorem C16_watch_prefix : forall sb se p e start,
  R sb se -> evs_ok sb -> keys_wf sb -> Z.of_N (b_rev sb) < two63 ->
  wf_bytes p -> Coder.prefix_end_opt p = Some e -> 0 <= start < two63 ->
  map proj_event (etcd_watch se p e start) = map proj_event (shim_watch sb p (Z.to_N start)).
Proof. exact watch_agree. Qed.
Print Assumptions C16_watch_prefix.
Theorem C16_event_log_wf : forall sb se t, R sb se -> evs_ok sb -> evs_ok (fst (shim_txn sb t)).
Proof. exact shim_txn_evs_ok. Qed.
Print Assumptions C16_event_log_wf.

(* ---- any other shape is rejected, never executed as something else *)

Definition C16_unsupported_full_statement : Prop := unsupported_full_statement.

Theorem C16_unsupported_full_refuted : ~ C16_unsupported_full_statement.
Proof. exact unsupported_full_refuted. Qed.
Print Assumptions C16_unsupported_full_refuted.

(* for EVERY structurally valid transaction outside the findings' signatures: either the shim
   returns an error and has stored nothing, or its projected response and its effect are the
   interpreter's for that very request *)
Theorem C16_unsupported : forall sb se t,
  R sb se -> bounded sb -> txn_wf t = true -> fields_ok t -> ~ finding_sig se t ->
  rejected t sb se \/ sim_ok t sb se.
Proof. exact unsupported_except. Qed.
Print Assumptions C16_unsupported.

(* a request no recogniser accepts leaves the state untouched *)
Theorem C16_rejected_untouched : forall sb t, recognised t = false -> isCompact t = false -> shim_txn sb t = (sb, TErr).
Proof. exact not_recognised. Qed.
Print Assumptions C16_rejected_untouched.

(* hostile expected revisions (negative, far future) are rejected with nothing stored *)
Theorem C16_update_hostile : forall sb se k v u lease lim,
  R sb se -> bounded sb -> (- two63 <= union_mod u < 0 \/ Z.of_N (b_rev sb) + 1 < union_mod u < two63) ->
  rejected (q_update k v u lease lim) sb se.
Proof. exact sim_update_hostile. Qed.
Print Assumptions C16_update_hostile.

(* ---- the findings, each as a witness on the model (replayed on the real code by the driver's corpus) *)
Theorem C16_F1_unguarded_delete_missing :
  both (b_init 10) (e_init 10) (q_deleteu kA 0) = (Some (false, []), Some (true, [PRange []; PSkip]), [], []).
Proof. exact refute_unguarded_missing. Qed.
Theorem C16_F2_guarded_delete_rev0 :
  both (fst after_create_a) (snd after_create_a) (q_delete kA (UMod 0) 0) =
  (Some (true, [PSkip]), Some (false, [PRange [(kA, v1, 11)]]), [], [(kA, v1, 11)]).
Proof. exact refute_guarded_zero. Qed.
Theorem C16_F3_count_under_limit :
  let r := list_req kLo kHi 1 in
  proj_range (shim_range (fst three_keys) r) = Some ([(kA, v1, 11)], 2, true)
  /\ proj_range (etcd_range (snd three_keys) r) = Some ([(kA, v1, 11)], 3, true).
Proof. exact refute_count_limit. Qed.
Theorem C16_F4_recogniser_key :
  let t := mkTxn [q_cmp kB (UMod 0)] [q_put kA v2 0] [q_get kB 0] in
  canonical t = None /\ recognised t = true /\
  both (b_init 10) (e_init 10) t = (Some (true, [PSkip]), Some (true, [PSkip]), [(kB, v2, 11)], [(kA, v2, 11)]).
Proof. exact refute_recogniser_key. Qed.
Theorem C16_F5_compact :
  let t := mkTxn [mkCmp REqual TVersion compact_rev_key (UVersion 0) []] [q_put compact_rev_key v1 0] [q_get compact_rev_key 0] in
  recognised t = false /\ isCompact t = true /\
  both (b_init 10) (e_init 10) t =
  (Some (false, [PRange [(@nil N, @nil N, 0)]]), Some (true, [PSkip]), [], [(compact_rev_key, v1, 11)]).
Proof. exact refute_compact. Qed.
Theorem C16_F6_reserved_value :
  let t := q_create kA tombstone (UMod 0) 0 in
  let r := mkRange kA [] 0 0 false false in
  proj_range (shim_range (fst (shim_txn (b_init 10) t)) r) = Some ([], 0, false)
  /\ proj_range (etcd_range (fst (etcd_txn (e_init 10) 11 t)) r) = Some ([(kA, tombstone, 11)], 1, false).
Proof. exact refute_reserved_value. Qed.
(* regression on the witness of the former finding C16-F8: a point read of a key whose value is empty returns the
   kv, as etcd does (the general statement is C16_get: it has no hypothesis on the value; values may be empty
   throughout C16_supported / C16_unsupported) *)
Example C16_empty_value_read :
  let t := q_create kA [] (UMod 0) 0 in
  let r := mkRange kA [] 0 0 false false in
  proj_range (shim_range (fst (shim_txn (b_init 10) t)) r) = Some ([(kA, [], 11)], 1, false)
  /\ proj_range (etcd_range (fst (etcd_txn (e_init 10) 11 t)) r) = Some ([(kA, [], 11)], 1, false).
Proof. exact empty_value_read. Qed.

(* ---- non-vacuity *)
Example C16_scope_inhabited : in_scope_run (b_init 10) (e_init 10) sample_history.
Proof. exact sample_in_scope. Qed.
Example C16_sample_outcomes :
  map fst (snd (run_both (b_init 10) (e_init 10) sample_history)) =
  [PT (Some (true, [PSkip])); PT (Some (false, [])); PT (Some (true, [PSkip]));
   PT (Some (false, [PRange [(kA, v2, 13)]])); PT (Some (true, [PSkip]));
   PR (Some ([(kA, v2, 13)], 1, false)); PR (Some ([(kA, v2, 13)], 2, true)); PR (Some ([], 2, false));
   PT (Some (false, [PRange [(kA, v2, 13)]])); PT (Some (true, [PSkip])); PT (Some (false, [PRange []]));
   PT (Some (true, [PRange [(kB, v1, 15)]; PSkip])); PT (Some (false, [PRange []])); PR (Some ([], 0, false))].
Proof. vm_compute. reflexivity. Qed.
Example C16_relation_inhabited : R (b_init 10) (e_init 10).
Proof. exact (R_init 10). Qed.
