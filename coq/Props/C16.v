(* C16 — The etcd-facing API answers Kubernetes' requests as etcd would.
   Property theorems only: each is closed by `exact <lemma>` and followed by Print Assumptions.

   Reading guide.  [shim_txn]/[shim_range] are the model of pkg/server/etcd (recognisers + response
   shaping) over the sequential backend model; [etcd_txn]/[etcd_range] are the reference interpreter.
   The interpreter is run with the revision the shim deals for the same request ([Z.of_N (b_rev sb) + 1]):
   KubeBrain burns a revision per failed attempt, etcd does not, and etcd's behaviour depends on
   revisions only through comparisons — this is the "one monotone renaming of revisions".
   [proj_txn]/[proj_range] are the property's projection {Succeeded; the kvs of the range operations of
   the executed branch (key, value, mod revision); prev_kv where asked for; kvs order; Count; More}. *)
From KB Require Import Model.Etcd Model.C16Cases Proofs.Etcd Proofs.EtcdSim Proofs.EtcdRead Proofs.EtcdHist Proofs.EtcdWatch Proofs.EtcdLin Proofs.C16Oracle Proofs.C16Fin Proofs.EtcdRename.
Local Open Scope Z_scope.

(* ---- full statements (every history of the four shapes with zero/correct/stale expected revisions,
   every point and range read at the latest revision) — refuted by the faithful model *)

Definition C16_supported_full_statement : Prop := supported_full_statement.

Theorem C16_supported_full_refuted : ~ C16_supported_full_statement.
Proof. exact supported_full_refuted. Qed.
Print Assumptions C16_supported_full_refuted.

(* ---- the complement of the findings, over all histories *)

(* every history of in-scope requests (the four transaction shapes; point and range reads at any revision from 0 to the
   current one; counts) from the empty store: the projected responses of the shim equal the interpreter's, no request is
   rejected, afterwards both stores list the same keys, values and mod revisions in the same order, and the interpreter's
   MVCC store as of every revision q up to the current one is the backend's reading at q *)
Theorem C16_supported : forall base qs,
  in_scope_run (b_init base) (e_init (Z.of_N base)) qs ->
  let '(sb', se', ps) := run_both (b_init base) (e_init (Z.of_N base)) qs in
  Forall (fun p => fst p = snd p) ps /\ (forall p, In p ps -> fst p <> PT None)
  /\ map pk (e_cur se') = b_proj (b_kv sb') (b_rev sb')
  /\ (forall q, (q <= b_rev sb')%N -> map pk (hist_at (e_hist se') (Z.of_N q)) = b_proj (b_kv sb') q).
Proof. exact supported_from_init. Qed.
Print Assumptions C16_supported.

(* the same from any pair of related states, with the relation re-established (so that it composes) *)
Theorem C16_supported_step : forall qs sb se, R sb se -> in_scope_run sb se qs ->
  let '(sb', se', ps) := run_both sb se qs in
  Forall (fun p => fst p = snd p) ps /\ (forall p, In p ps -> fst p <> PT None) /\ R sb' se'.
Proof. exact supported_run. Qed.
Print Assumptions C16_supported_step.

(* per shape, for every expected revision from zero to the next revision *)
Theorem C16_create : forall sb se k v u lease,
  R sb se -> bounded sb -> k <> [] -> v <> tombstone -> union_mod u = 0 ->
  sim_ok (q_create k v u lease) sb se.
Proof. exact sim_create. Qed.
Print Assumptions C16_create.
Theorem C16_update : forall sb se k v u lease lim,
  R sb se -> bounded sb -> k <> [] -> v <> tombstone ->
  0 <= union_mod u <= Z.of_N (b_rev sb) + 1 -> sim_ok (q_update k v u lease lim) sb se.
Proof. exact sim_update_scope. Qed.
Print Assumptions C16_update.
Theorem C16_delete : forall sb se k u lim,
  R sb se -> bounded sb -> k <> [] -> 0 < union_mod u <= Z.of_N (b_rev sb) + 1 -> sim_ok (q_delete k u lim) sb se.
Proof. exact sim_delete_scope. Qed.
Print Assumptions C16_delete.
Theorem C16_delete_unguarded : forall sb se k lim y,
  R sb se -> bounded sb -> k <> [] -> e_find k (e_cur se) = Some y -> sim_ok (q_deleteu k lim) sb se.
Proof. exact sim_deleteu_live. Qed.
Print Assumptions C16_delete_unguarded.

(* reads: kvs in order with keys, values (also empty ones), mod revisions; Count; More.
   First at the latest revision ... *)
Theorem C16_get : forall sb se k lim, R sb se -> bounded sb -> k <> [] ->
  proj_range (shim_range sb (mkRange k [] lim 0 false false)) = proj_range (etcd_range se (mkRange k [] lim 0 false false)).
Proof. exact sim_get. Qed.
Print Assumptions C16_get.
Theorem C16_list : forall sb se a b limit,
  R sb se -> bounded sb -> a <> [] -> b <> [] -> b <> [0%N] -> bltb a b = true ->
  limit + 1 < two63 -> (limit <= 0 \/ lenZ (e_range (e_cur se) a b) <= limit + 1) ->
  proj_range (shim_range sb (list_req a b limit)) = proj_range (etcd_range se (list_req a b limit)).
Proof. exact sim_list. Qed.
Print Assumptions C16_list.
(* ... then at any revision z from 0 (= latest) to the current one.  The relation R carries the history clause (R_hist):
   the interpreter's MVCC store as of a revision is the backend's reading at it — per key the newest object record at or
   below the revision, unless it holds the reserved value.  [view se z] is the store etcd reads at z, [qof sb z] the read
   revision the backend scans at.  The models have no compaction, so "z >= compacted" is "any z"; z above the current
   revision is outside (ErrFutureRev in etcd); z = 1888 with a range end is the partition request (F7). *)
Theorem C16_history_clause : forall sb se z cur, R sb se -> bounded sb -> 0 <= z <= Z.of_N (b_rev sb) ->
  (z <= 0 -> cur = e_cur se) ->
  store_at se cur z = Some (view se z) /\ esorted (view se z)
  /\ map pk (view se z) = b_proj (b_kv sb) (qof sb z) /\ (qof sb z <= b_rev sb)%N /\ (0 < z -> qof sb z = Z.to_N z).
Proof. exact view_eq. Qed.
Print Assumptions C16_history_clause.
Theorem C16_get_at : forall sb se k lim z, R sb se -> bounded sb -> k <> [] -> 0 <= z <= Z.of_N (b_rev sb) ->
  proj_range (shim_range sb (mkRange k [] lim z false false)) = proj_range (etcd_range se (mkRange k [] lim z false false)).
Proof. exact sim_get_at. Qed.
Print Assumptions C16_get_at.
Theorem C16_list_at : forall sb se a b limit z,
  R sb se -> bounded sb -> a <> [] -> b <> [] -> b <> [0%N] -> bltb a b = true ->
  0 <= z <= Z.of_N (b_rev sb) -> z <> partition_magic ->
  limit + 1 < two63 -> (limit <= 0 \/ lenZ (e_range (view se z) a b) <= limit + 1) ->
  proj_range (shim_range sb (list_req_at a b limit z)) = proj_range (etcd_range se (list_req_at a b limit z)).
Proof. exact sim_list_at. Qed.
Print Assumptions C16_list_at.
(* and without the bound on the number of keys (finding F3 concerns Count only): the kvs — keys, values, mod revisions,
   order — and More agree for every list, at any revision; [kvs_more] drops the Count *)
Theorem C16_list_kvs_more : forall sb se a b limit z,
  R sb se -> bounded sb -> a <> [] -> b <> [] -> b <> [0%N] -> bltb a b = true ->
  0 <= z <= Z.of_N (b_rev sb) -> z <> partition_magic -> limit + 1 < two63 ->
  kvs_more (proj_range (shim_range sb (list_req_at a b limit z))) = kvs_more (proj_range (etcd_range se (list_req_at a b limit z))).
Proof. exact sim_list_kvs_more. Qed.
Print Assumptions C16_list_kvs_more.
(* counts: at the latest revision (a count carrying a past revision is finding F9, below) *)
Theorem C16_count : forall sb se a b,
  R sb se -> bounded sb -> a <> [] -> b <> [] -> b <> [0%N] -> lenZ (e_range (e_cur se) a b) < two63 ->
  proj_range (shim_range sb (count_req a b)) = proj_range (etcd_range se (count_req a b)).
Proof. exact sim_count. Qed.
Print Assumptions C16_count.

(* watch: the shim's event log and the interpreter's agree on kind, key, value, mod revision and,
   for deletes, the previous kv — in every state reachable by in-scope histories (R is preserved) *)
Theorem C16_watch_events : forall sb se, R sb se ->
  map proj_event (e_events se) = map proj_event (map shim_event (b_events sb)).
Proof. exact events_agree. Qed.
Print Assumptions C16_watch_events.

(* a prefix watch from any start revision: the same events (kind, key, value, mod revision, previous kv on
   deletes) in the same order on both sides; the event log's well-formedness is kept by EVERY transaction *)
Theorem C16_watch_prefix : forall sb se p e start,
  R sb se -> evs_ok sb -> keys_wf sb -> Z.of_N (b_rev sb) < two63 ->
  wf_bytes p -> Coder.prefix_end_opt p = Some e -> 0 <= start < two63 ->
  map proj_event (etcd_watch se p e start) = map proj_event (shim_watch sb p (Z.to_N start)).
Proof. exact watch_agree. Qed.
Print Assumptions C16_watch_prefix.
Theorem C16_event_log_wf : forall sb se t, R sb se -> evs_ok sb -> evs_ok (fst (shim_txn sb t)).
Proof. exact shim_txn_evs_ok. Qed.
Print Assumptions C16_event_log_wf.
(* ... and so is the other hypothesis of C16_watch_prefix, by every transaction of one of the shapes on a well-formed key:
   with C16_supported_step (R), C16_event_log_wf (evs_ok) and this (keys_wf) the watch theorem applies after any in-scope
   history whose keys are byte strings *)
Theorem C16_keys_wf_step : forall sb t sh, canonical t = Some sh -> wf_bytes (shape_key sh) -> keys_wf sb ->
  keys_wf (fst (shim_txn sb t)).
Proof. exact shim_txn_keys_wf. Qed.
Print Assumptions C16_keys_wf_step.

(* ---- any other shape is rejected, never executed as something else *)

Definition C16_unsupported_full_statement : Prop := unsupported_full_statement.

Theorem C16_unsupported_full_refuted : ~ C16_unsupported_full_statement.
Proof. exact unsupported_full_refuted. Qed.
Print Assumptions C16_unsupported_full_refuted.

(* for EVERY structurally valid transaction outside the findings' signatures: either the shim
   returns an error and has stored nothing, or its projected response and its effect are the
   interpreter's for that very request *)
Theorem C16_unsupported : forall sb se t,
  R sb se -> bounded sb -> txn_wf t = true -> fields_ok t -> ~ finding_sig se t ->
  rejected t sb se \/ sim_ok t sb se.
Proof. exact unsupported_except. Qed.
Print Assumptions C16_unsupported.

Example C16_unsupported_inhabited :
  let t := mkTxn [] [q_put kA v1 0] [] in
  txn_wf t = true /\ recognised t = false /\ rejected t (b_init 10) (e_init 10).
Proof. exact unsupported_example. Qed.

(* the recognised-but-not-canonical class (finding F4), characterised: every request a recogniser accepts is executed
   exactly as the canonical request of the shape it was taken for, built from the fields the recogniser reads
   ([executed_as]: put key and value for a create; compared key, put value and lease, compared revision for an update;
   deleted key and compared revision for a delete); a create whose put carries a flag is rejected.  So the shim's answer
   to t is, by C16_supported, etcd's answer to [executed_as t], and the divergence of F4 is exactly the difference
   between t and [executed_as t] as etcd reads them.  On a canonical request the translation keeps the shape. *)
Theorem C16_recognised_executed_as : forall sb t, recognised t = true ->
  match executed_as t with
  | Some t' => shim_txn sb t = shim_txn sb t' /\ canonical t' <> None
  | None => shim_txn sb t = (sb, TErr)
  end.
Proof. exact recognised_executed_as. Qed.
Print Assumptions C16_recognised_executed_as.
Theorem C16_executed_as_canonical : forall t sh, canonical t = Some sh ->
  exists t', executed_as t = Some t' /\ canonical t' = Some sh.
Proof. exact executed_as_canonical. Qed.
Print Assumptions C16_executed_as_canonical.
Example C16_executed_as_witness :
  executed_as (mkTxn [q_cmp kB (UMod 0)] [q_put kA v2 0] [q_get kB 0]) = Some (q_update kB v2 (UMod 0) 0 0).
Proof. exact executed_as_witness. Qed.

(* a request no recogniser accepts leaves the state untouched *)
Theorem C16_rejected_untouched : forall sb t, recognised t = false -> isCompact t = false -> shim_txn sb t = (sb, TErr).
Proof. exact not_recognised. Qed.
Print Assumptions C16_rejected_untouched.

(* hostile expected revisions (negative, far future) are rejected with nothing stored *)
Theorem C16_update_hostile : forall sb se k v u lease lim,
  R sb se -> bounded sb -> (- two63 <= union_mod u < 0 \/ Z.of_N (b_rev sb) + 1 < union_mod u < two63) ->
  rejected (q_update k v u lease lim) sb se.
Proof. exact sim_update_hostile. Qed.
Print Assumptions C16_update_hostile.
Example C16_update_hostile_inhabited : rejected (q_update kA v1 (UMod (-1)) 0 0) (b_init 10) (e_init 10).
Proof. exact hostile_example. Qed.

(* ---- the findings, each as a witness on the model (replayed on the real code by the driver's corpus) *)
Theorem C16_F1_unguarded_delete_missing :
  both (b_init 10) (e_init 10) (q_deleteu kA 0) = (Some (false, []), Some (true, [PRange []; PSkip]), [], []).
Proof. exact refute_unguarded_missing. Qed.
Print Assumptions C16_F1_unguarded_delete_missing.
Theorem C16_F2_guarded_delete_rev0 :
  both (fst after_create_a) (snd after_create_a) (q_delete kA (UMod 0) 0) =
  (Some (true, [PSkip]), Some (false, [PRange [(kA, v1, 11)]]), [], [(kA, v1, 11)]).
Proof. exact refute_guarded_zero. Qed.
Print Assumptions C16_F2_guarded_delete_rev0.
Theorem C16_F3_count_under_limit :
  let r := list_req kLo kHi 1 in
  proj_range (shim_range (fst three_keys) r) = Some ([(kA, v1, 11)], 2, true)
  /\ proj_range (etcd_range (snd three_keys) r) = Some ([(kA, v1, 11)], 3, true).
Proof. exact refute_count_limit. Qed.
Print Assumptions C16_F3_count_under_limit.
Theorem C16_F4_recogniser_key :
  let t := mkTxn [q_cmp kB (UMod 0)] [q_put kA v2 0] [q_get kB 0] in
  canonical t = None /\ recognised t = true /\
  both (b_init 10) (e_init 10) t = (Some (true, [PSkip]), Some (true, [PSkip]), [(kB, v2, 11)], [(kA, v2, 11)]).
Proof. exact refute_recogniser_key. Qed.
Print Assumptions C16_F4_recogniser_key.
Theorem C16_F5_compact :
  let t := mkTxn [mkCmp REqual TVersion compact_rev_key (UVersion 0) []] [q_put compact_rev_key v1 0] [q_get compact_rev_key 0] in
  recognised t = false /\ isCompact t = true /\
  both (b_init 10) (e_init 10) t =
  (Some (false, [PRange [(@nil N, @nil N, 0)]]), Some (true, [PSkip]), [], [(compact_rev_key, v1, 11)]).
Proof. exact refute_compact. Qed.
Print Assumptions C16_F5_compact.
Theorem C16_F6_reserved_value :
  let t := q_create kA tombstone (UMod 0) 0 in
  let r := mkRange kA [] 0 0 false false in
  proj_range (shim_range (fst (shim_txn (b_init 10) t)) r) = Some ([], 0, false)
  /\ proj_range (etcd_range (fst (etcd_txn (e_init 10) 11 t)) r) = Some ([(kA, tombstone, 11)], 1, false).
Proof. exact refute_reserved_value. Qed.
Print Assumptions C16_F6_reserved_value.
(* F7: a range read at revision 1888 is the private partition request *)
Theorem C16_F7_partition_magic :
  let r := mkRange kLo kHi 0 1888 false false in
  exists x y, shim_range (mkB 5000 [] []) r = ROk 5000 [x; y] 2 false
  /\ etcd_range (mkE 5000 5000 [] [] []) r = ROk 5000 [] 0 false.
Proof. exact refute_partition_magic. Qed.
Print Assumptions C16_F7_partition_magic.
(* F9: a count carrying a past revision is answered at the latest one (the Count path passes key and end only) *)
Theorem C16_F9_count_at_revision :
  let t1 := q_create kA v1 (UMod 0) 0 in
  let t2 := q_create kB v1 (UMod 0) 0 in
  let r := mkRange kLo kHi 0 11 true false in
  let sb := fst (shim_txn (fst (shim_txn (b_init 10) t1)) t2) in
  let se := fst (etcd_txn (fst (etcd_txn (e_init 10) 11 t1)) 12 t2) in
  proj_range (shim_range sb r) = Some ([], 2, false) /\ proj_range (etcd_range se r) = Some ([], 1, false).
Proof. exact count_at_revision_witness. Qed.
Print Assumptions C16_F9_count_at_revision.
(* regression on the witness of the former finding C16-F8: a point read of a key whose value is empty returns the
   kv, as etcd does (the general statement is C16_get: it has no hypothesis on the value; values may be empty
   throughout C16_supported / C16_unsupported) *)
Example C16_empty_value_read :
  let t := q_create kA [] (UMod 0) 0 in
  let r := mkRange kA [] 0 0 false false in
  proj_range (shim_range (fst (shim_txn (b_init 10) t)) r) = Some ([(kA, [], 11)], 1, false)
  /\ proj_range (etcd_range (fst (etcd_txn (e_init 10) 11 t)) r) = Some ([(kA, [], 11)], 1, false).
Proof. exact empty_value_read. Qed.

(* ---- linearisation of conditional writes (the claim behind the C16Race case kind).
   [gwrite k e t]: t is a create-if-absent of k (e = 0), a guarded update of k with expected mod revision e, or a guarded
   delete with expected mod revision e <> 0.  [serial s nr ts] runs the list in the reference interpreter, one after the
   other with consecutive revisions, and returns the Succeeded flags.  The list is arbitrary, so this is "any serial order".
   The backend half of the claim under true concurrency is C01_no_double_success (two commits of one key at one compared
   revision cannot both be applied). *)
Theorem C16_linearises : forall s nr k e ts, Forall (gwrite k e) ts -> esorted (e_cur s) -> k <> [] -> e < nr ->
  (count_true (serial s nr ts) <= 1)%nat.
Proof. exact etcd_linearises. Qed.
Print Assumptions C16_linearises.

Theorem C16_linearises_exact : forall s nr k e t ts, Forall (gwrite k e) (t :: ts) -> esorted (e_cur s) -> k <> [] -> e < nr ->
  cmp_holds s k e = true -> count_true (serial s nr (t :: ts)) = 1%nat.
Proof. exact etcd_linearises_exact. Qed.
Print Assumptions C16_linearises_exact.

(* the oracle's C16Race clause accepts exactly one winner of each race: the counts of every pair of such serial runs whose
   guard holds at the start (creates of an absent key; updates carrying the revision just read), and nothing else *)
Theorem C16_race_oracle_image : forall s1 nr1 k e1 t1 ts1 s2 nr2 e2 t2 ts2 clients rounds,
  Forall (gwrite k e1) (t1 :: ts1) -> esorted (e_cur s1) -> e1 < nr1 -> cmp_holds s1 k e1 = true ->
  Forall (gwrite k e2) (t2 :: ts2) -> esorted (e_cur s2) -> e2 < nr2 -> cmp_holds s2 k e2 = true -> k <> [] ->
  c16_oracle (C16Race clients rounds (N.of_nat (count_true (serial s1 nr1 (t1 :: ts1)))) (N.of_nat (count_true (serial s2 nr2 (t2 :: ts2))))) = None.
Proof. exact race_oracle_image. Qed.
Print Assumptions C16_race_oracle_image.
Theorem C16_race_oracle_exact : forall clients rounds mc mu,
  c16_oracle (C16Race clients rounds mc mu) = None <-> mc = 1%N /\ mu = 1%N.
Proof. exact race_oracle_exact. Qed.
Print Assumptions C16_race_oracle_exact.

Example C16_race_inhabited :
  serial (e_init 10) 11 race_creates = [true; false; false; false; false; false; false; false]
  /\ Forall (gwrite race_key 0) race_creates /\ Forall (gwrite race_key 11) race_updates
  /\ count_true (serial (fst (etcd_txn (e_init 10) 11 (q_create race_key [1%N] (UMod 0) 0))) 12 race_updates) = 1%nat.
Proof. exact race_example. Qed.

(* ---- the oracle is sound on valid cases.
   [c16_strongb] (Model/C16Cases.v) evaluates, along the shim model's own run of the case, that every request is in the
   scope of C16_supported (the four shapes with an expected revision between zero and the current one, no reserved value,
   well-formed keys; reads at any revision up to the current one; counts at the latest); [c16_headersb] that every watch
   message's header is the mod revision of its last event.  On such a case, if the shim model reproduces what was
   observed (c16_check), the oracle — the reference interpreter replaying the observation under the projection, the
   listing comparisons, the event comparison — accepts it: for every case kind, with no side condition beyond the
   evaluated validity (also a valid prefix closed by one transaction the shim rejects with nothing stored is in this
   class).  [c16_valid c] is [c16_strongb c = true /\ c16_headersb c = true]. *)
Theorem C16_oracle_sound : forall c, c16_valid c -> c16_check c = true -> c16_oracle c = None.
Proof. exact c16_oracle_sound. Qed.
Print Assumptions C16_oracle_sound.
Theorem C16_validb_sound : forall c, c16_valid c <-> c16_strongb c && c16_headersb c = true.
Proof. exact c16_validb_decides. Qed.
Print Assumptions C16_validb_sound.
(* beyond full strength: a valid prefix closed by ONE arbitrary structurally valid transaction ([c16_validb] = full
   strength, or that form) — whatever the closing transaction is (a shape in or out of scope, a request a recogniser takes
   for a shape, the compaction transaction, a reserved value, something no recogniser accepts), if the shim model
   reproduces the observation then the oracle agrees or reports the code of a listed finding (F1, F2, F4, F5, F6), never
   the unlisted code 0.  This is what the claimed cases of a run are covered by (c16_checkv evaluates c16_validb).  No
   such statement holds for arbitrary histories: after a step on which the two stores part silently the interpreter is
   ahead and a later in-scope write is reported with code 0 (see the gaps). *)
Theorem C16_oracle_listed : forall c, c16_validb c = true -> c16_headersb c = true -> c16_check c = true ->
  listed_verdict (c16_oracle c).
Proof. exact c16_oracle_listed. Qed.
Print Assumptions C16_oracle_listed.
Theorem C16_checkv_sound : forall c, c16_checkv (V true c) = true -> listed_verdict (c16_oraclev (V true c)).
Proof. exact c16_checkv_sound. Qed.
Print Assumptions C16_checkv_sound.
Example C16_listed_inhabited :
  c16_checkv (V true fin_case) = true /\ c16_strongb fin_case = false /\ c16_oracle fin_case = Some F_unguarded_missing.
Proof. exact fin_case_checked. Qed.
(* the watch headers against the model of the sender: whatever the cut of the events into non-empty batches, the sender's
   messages pass c16_headersb and carry exactly the events; messages with the right headers and no empty batch are the
   sender's messages for their own cut *)
Theorem C16_sender_headers : forall cut, Forall (fun b => b <> []) cut ->
  forallb header_ok (send_batches cut) = true /\ batches_events (send_batches cut) = concat cut.
Proof. exact send_batches_ok. Qed.
Print Assumptions C16_sender_headers.
Theorem C16_headers_are_sender : forall bs, forallb header_ok bs = true -> Forall (fun b => snd b <> []) bs ->
  bs = send_batches (map snd bs).
Proof. exact headers_are_sender. Qed.
Print Assumptions C16_headers_are_sender.
Example C16_checkv_inhabited : c16_checkv (V true sample_case) = true /\ c16_oraclev (V true sample_case) = None
  /\ c16_strongb (C16Hist 10 sample_ns [STxn (q_deleteu sample_key 0) TErr None] None None) = false.
Proof. exact sample_case_checked. Qed.

(* ---- parametric revisions are a renaming.  The interpreter is run with the revision the shim deals instead of etcd's
   rev + 1.  For every strictly increasing f on revisions with f 0 = 0: running the interpreter on the renamed state with
   the renamed revision and the renamed request (mod/create compare unions, range revisions; nested transactions) gives
   the renamed state and the renamed response — transactions, ranges at any revision, watches.  So any strictly
   increasing numbering of the writes is etcd's own numbering up to f, and the projection's revisions are compared
   through f only. *)
Theorem C16_interpreter_equivariant : forall f, (forall a b, a < b -> f a < f b) -> f 0 = 0 ->
  forall s nr t, etcd_txn (rstate f s) (f nr) (rtxn f t) = (rstate f (fst (etcd_txn s nr t)), rtresp f (snd (etcd_txn s nr t))).
Proof. exact etcd_txn_ren. Qed.
Print Assumptions C16_interpreter_equivariant.
Theorem C16_range_equivariant : forall f, (forall a b, a < b -> f a < f b) -> f 0 = 0 ->
  forall s r, etcd_range (rstate f s) (rrange f r) = rrresp f (etcd_range s r).
Proof. exact etcd_range_ren. Qed.
Print Assumptions C16_range_equivariant.
Theorem C16_watch_equivariant : forall f, (forall a b, a < b -> f a < f b) ->
  forall s a b start, etcd_watch (rstate f s) a b (f start) = map (rwev f) (etcd_watch s a b start).
Proof. exact etcd_watch_ren. Qed.
Print Assumptions C16_watch_equivariant.
Example C16_renaming_inhabited :
  ((forall a b, a < b -> ren_example a < ren_example b) /\ ren_example 0 = 0)
  /\ (let t1 := mkTxn [mkCmp REqual TMod [47; 97]%N (UMod 0) []] [OpPut (mkPut [47; 97]%N [49%N] 0 false false false)] [] in
      let t2 := mkTxn [mkCmp REqual TMod [47; 97]%N (UMod 1) []] [OpPut (mkPut [47; 97]%N [50%N] 0 true false false)]
                      [OpRange (mkRange [47; 97]%N [] 0 1 false false)] in
      let s1 := fst (etcd_txn (e_init 0) 1 t1) in
      let s1' := fst (etcd_txn (e_init 0) 11 (rtxn ren_example t1)) in
      s1' = rstate ren_example s1
      /\ etcd_txn s1' 13 (rtxn ren_example t2) = (rstate ren_example (fst (etcd_txn s1 2 t2)), rtresp ren_example (snd (etcd_txn s1 2 t2)))
      /\ snd (etcd_txn s1' 13 (rtxn ren_example t2)) = TOk 13 true [RsPut 13 (Some (mkKv [47; 97]%N [49%N] 11 11 1 0))]).
Proof. exact (conj ren_example_ok ren_example_run). Qed.

(* ---- non-vacuity *)
Example C16_scope_inhabited : in_scope_run (b_init 10) (e_init 10) sample_history.
Proof. exact sample_in_scope. Qed.
Example C16_sample_outcomes :
  map fst (snd (run_both (b_init 10) (e_init 10) sample_history)) =
  [PT (Some (true, [PSkip])); PT (Some (false, [])); PT (Some (true, [PSkip]));
   PT (Some (false, [PRange [(kA, v2, 13)]])); PT (Some (true, [PSkip]));
   PR (Some ([(kA, v2, 13)], 1, false)); PR (Some ([(kA, v2, 13)], 2, true)); PR (Some ([], 2, false));
   PT (Some (false, [PRange [(kA, v2, 13)]])); PT (Some (true, [PSkip])); PT (Some (false, [PRange []]));
   PT (Some (true, [PRange [(kB, v1, 15)]; PSkip])); PT (Some (false, [PRange []])); PR (Some ([], 0, false));
   (* reads at past revisions 11, 12 (a burnt one), 15, 17 (limit 1), 14 *)
   PR (Some ([(kA, v1, 11)], 1, false)); PR (Some ([(kA, v1, 11)], 1, false));
   PR (Some ([(kA, v2, 13); (kB, v1, 15)], 2, false)); PR (Some ([(kB, v1, 15)], 1, false)); PR (Some ([], 0, false))].
Proof. vm_compute. reflexivity. Qed.
Example C16_relation_inhabited : R (b_init 10) (e_init 10).
Proof. exact (R_init 10). Qed.
