(* C11 — Every storage adapter honours the engine contract.
   Property theorems only: each is closed by `exact <lemma>` and followed by Print Assumptions.

   Reading guide.  `refines_on A m R ok` (Proofs/C11Cases.v): from adapter state s and contract state c with R s c,
   for every operation sequence admitted by `ok` (batches with several conditions, conditions on missing keys, a key
   written twice, Del-then-CAS, gets, deletes, compare-and-deletes through a held iterator, forward / backward /
   limited iterations with arbitrary bounds, start = end) the contract oracle o_run_gen accepts the adapter's answers
   step by step — error class ok | cond_failed | not_found; the payload of a failed put-if-absent; iterator output =
   a prefix of the contract's interval output (hence inside the interval and in order) of length >= min(limit, all) —
   and the final states are related by R again (the raw contents are the contract's map; a failed batch leaves
   the contract state, hence the map, unchanged).
   `C11_full_statement A m R` is the same without any restriction on the sequences.  It is proved for memkv (finding
   C11-F3 is fixed) and REFUTED for Badger and TiKV by the two open deviations recorded in known_findings.d/C11.json,
   for which the complement is proved. *)
From KB Require Import Base.Cases Model.Store Model.Adapters Model.C11Cases
  Proofs.Store Proofs.AdapterLists Proofs.Adapters Proofs.C11Cases.
Local Open Scope N_scope.

(* ---- the contract's ordered map ---- *)

Theorem C11_set_sorted : forall (s : store) k v, sorted s -> sorted (set s k v).
Proof. exact (@set_sorted bytes). Qed.
Print Assumptions C11_set_sorted.

Theorem C11_remove_sorted : forall (s : store) k, sorted s -> sorted (remove s k).
Proof. exact (@remove_sorted bytes). Qed.
Print Assumptions C11_remove_sorted.

Theorem C11_get_set_same : forall (s : store) k v, get (set s k v) k = Some v.
Proof. exact (@get_set_same bytes). Qed.
Print Assumptions C11_get_set_same.

Theorem C11_get_set_other : forall (s : store) k k' v, k' <> k -> get (set s k v) k' = get s k'.
Proof. exact (@get_set_other bytes). Qed.
Print Assumptions C11_get_set_other.

Theorem C11_get_remove_same : forall (s : store) k, get (remove s k) k = None.
Proof. exact (@get_remove_same bytes). Qed.
Print Assumptions C11_get_remove_same.

Theorem C11_get_remove_other : forall (s : store) k k', k' <> k -> get (remove s k) k' = get s k'.
Proof. exact (@get_remove_other bytes). Qed.
Print Assumptions C11_get_remove_other.

Theorem C11_store_extensional : forall (s1 s2 : store), sorted s1 -> sorted s2 -> (forall k, get s1 k = get s2 k) -> s1 = s2.
Proof. exact (@sorted_ext bytes). Qed.
Print Assumptions C11_store_extensional.

(* an iteration yields exactly the records of the interval (start inclusive, end exclusive) ... *)
Theorem C11_iter_exact : forall (s : store) a b e,
  In e (iter_all s a b) <->
  In e s /\ (if is_fwd a b then bcmp a (fst e) <> Gt /\ bcmp (fst e) b = Lt
             else bcmp b (fst e) = Lt /\ bcmp (fst e) a <> Gt).
Proof. exact (@iter_all_in bytes). Qed.
Print Assumptions C11_iter_exact.

(* ... in the requested direction; nothing when start = end *)
Theorem C11_iter_ascending : forall (s : store) a b, sorted s -> is_fwd a b = true -> sorted (iter_all s a b).
Proof. exact (@iter_all_fwd_sorted bytes). Qed.
Print Assumptions C11_iter_ascending.

Theorem C11_iter_descending : forall (s : store) a b, sorted s -> is_fwd a b = false -> sorted (rev (iter_all s a b)).
Proof. exact (@iter_all_bwd_sorted bytes). Qed.
Print Assumptions C11_iter_descending.

Theorem C11_iter_same_bounds : forall (s : store) a, iter_all s a a = [].
Proof. exact (@iter_all_same bytes). Qed.
Print Assumptions C11_iter_same_bounds.

Theorem C11_batch_sorted : forall m c ops c', cs_sorted c -> batch_eval m c ops = Applied c' -> cs_sorted c'.
Proof. exact batch_eval_sorted. Qed.
Print Assumptions C11_batch_sorted.

(* ---- refinement, per adapter ---- *)

(* memkv refines the contract (compare-and-delete by value) on every operation sequence *)
Theorem C11_refines_memkv : C11_full_statement memkv ByValue mem_R.
Proof. exact refines_memkv. Qed.
Print Assumptions C11_refines_memkv.

(* TiKV refines the contract (by value) on sequences that write no empty value (finding C11-F1) *)
Theorem C11_refines_tikv_except_F1 : refines_on tikv ByValue tikv_R seq_nonempty.
Proof. exact refines_tikv. Qed.
Print Assumptions C11_refines_tikv_except_F1.

Theorem C11_refines_tikv_refuted : ~ C11_full_statement tikv ByValue tikv_R.
Proof. exact full_tikv_refuted. Qed.
Print Assumptions C11_refines_tikv_refuted.

(* Badger refines the contract (compare-and-delete by version) on sequences without a DelCurrent(held iterator)
   after a write in the same batch (finding C11-F2) *)
Theorem C11_refines_badger_except_F2 : refines_on badger ByVersion badger_R seq_fresh.
Proof. exact refines_badger. Qed.
Print Assumptions C11_refines_badger_except_F2.

Theorem C11_refines_badger_refuted : ~ C11_full_statement badger ByVersion badger_R.
Proof. exact full_badger_refuted. Qed.
Print Assumptions C11_refines_badger_refuted.

(* the metrics wrapper refines whatever its inner adapter refines *)
Theorem C11_refines_wrapper : forall A m (S : sim A m), refines_on (wrapper A) m (sim_R A m S) (Forall (sop_ok S)).
Proof. exact refines_wrapper. Qed.
Print Assumptions C11_refines_wrapper.

(* the exact per-batch statements behind the sequence theorems (complement of the deviations at batch level) *)
Theorem C11_batch_refines_memkv : forall s c ops, mem_R s c ->
  batch_proj_ok ops (batch_eval ByValue c ops) (snd (fst (mem_batch_run s ops))) (snd (mem_batch_run s ops)) = true /\
  match batch_eval ByValue c ops with
  | Applied c' => mem_R (fst (fst (mem_batch_run s ops))) c'
  | CondFailed _ _ => fst (fst (mem_batch_run s ops)) = s
  end.
Proof. exact mem_batch_sim. Qed.
Print Assumptions C11_batch_refines_memkv.

Theorem C11_batch_refines_tikv : forall s c ops, tikv_R s c -> Forall bop_wnonempty ops ->
  batch_proj_ok ops (batch_eval ByValue c ops) (snd (fst (t_batch s ops))) (snd (t_batch s ops)) = true /\
  match batch_eval ByValue c ops with
  | Applied c' => tikv_R (fst (fst (t_batch s ops))) c'
  | CondFailed _ _ => fst (fst (t_batch s ops)) = s
  end.
Proof. exact tikv_batch_sim. Qed.
Print Assumptions C11_batch_refines_tikv.

Theorem C11_batch_refines_badger : forall s c ops, badger_R s c -> written_before_delcur ops [] = false ->
  batch_proj_ok ops (batch_eval ByVersion c ops) (snd (fst (b_batch s ops))) (snd (b_batch s ops)) = true /\
  match batch_eval ByVersion c ops with
  | Applied c' => badger_R (fst (fst (b_batch s ops))) c'
  | CondFailed _ _ => fst (fst (b_batch s ops)) = s
  end.
Proof. exact badger_batch_sim. Qed.
Print Assumptions C11_batch_refines_badger.

(* iterators: memkv delivers the whole interval, Badger exactly the limit, TiKV limit + 1 — always a prefix *)
Theorem C11_iter_memkv : forall s a b l, sorted s -> mem_iter s a b l = iter_all s a b.
Proof. exact mem_iter_all. Qed.
Print Assumptions C11_iter_memkv.

Theorem C11_iter_tikv : forall s a b l, sorted s ->
  exists n, t_iter s a b l = firstn n (iter_all s a b) /\ (min_count l (length (iter_all s a b)) <= n)%nat.
Proof. exact t_iter_prefix. Qed.
Print Assumptions C11_iter_tikv.

Theorem C11_iter_badger : forall s c a b l, badger_R s c ->
  exists n, b_iter s a b l = firstn n (citems ByVersion c a b) /\ (min_count l (length (citems ByVersion c a b)) <= n)%nat.
Proof. exact b_iter_prefix. Qed.
Print Assumptions C11_iter_badger.

(* ---- all or nothing: a batch that does not answer ok leaves the adapter's state untouched (no hypothesis) ---- *)
Theorem C11_atomic_memkv : forall s ops, snd (fst (mem_batch_run s ops)) <> ROk -> fst (fst (mem_batch_run s ops)) = s.
Proof. exact mem_atomic. Qed.
Print Assumptions C11_atomic_memkv.

Theorem C11_atomic_badger : forall s ops, snd (fst (b_batch s ops)) <> ROk -> fst (fst (b_batch s ops)) = s.
Proof. exact badger_atomic. Qed.
Print Assumptions C11_atomic_badger.

Theorem C11_atomic_tikv : forall env s ops, snd (fst (t_batch_env env s ops)) <> ROk -> fst (fst (t_batch_env env s ops)) = s.
Proof. exact tikv_atomic. Qed.
Print Assumptions C11_atomic_tikv.

(* ---- the executable oracle used on the implementation's observations accepts every model run outside the deviations ---- *)
Theorem C11_oracle_sound : forall c, c11_clean c -> c11_check c = true -> c11_oracle c = None.
Proof. exact c11_oracle_sound. Qed.
Print Assumptions C11_oracle_sound.

(* ---- two interleaved batches: the engines' optimistic concurrency, as modelled, gives serialisable outcomes on every
   engine (finding C11-F4 is fixed: Badger's commit conflict is reported as a failed condition) ---- *)
Theorem C11_interleaved_serialisable : forall e variant, il_oracle e (il_expected e variant) = None.
Proof. exact il_expected_ok. Qed.
Print Assumptions C11_interleaved_serialisable.

(* regression: Badger's answer before the repair (its own conflict error, class other) is rejected by the oracle *)
Example C11_interleaved_old_badger_rejected : il_oracle EBadger (true, ROther, false, true) = Some 0.
Proof. exact il_old_badger_rejected. Qed.

(* ---- non-vacuity ---- *)

(* the relations are inhabited by a non-trivial state, and a sequence with a failing second condition, a CAS on a
   missing key, a backward iteration over an empty interval above stored keys and a DelCurrent after a change is
   admitted by every `ok` and panic-free *)
Definition ex_ops : list sop :=
  [SBatch [BPut [98] [49] 0; BPut [100] [50] 0; BPut [102] [51] 0];
   SBatch [BCAS [98] [57] [49] 0; BPutNX [100] [55] 0];
   SBatch [BCAS [97] [50] [49] 0];
   SIter [99; 57] [99; 48] 0; SIter [102] [98] 1;
   SHold [0] [255; 255] 0 0; SBatch [BPut [98] [52] 0]; SDelCur; SGet [98]].

Example C11_ex_memkv : mem_R [([98], [49])] (cs_of [([98], [49])]) /\ Forall not_panic (snd (a_run memkv [] None ex_ops)).
Proof. split; [repeat split; repeat constructor|]. vm_compute. repeat constructor. Qed.

(* the witness of the repaired finding C11-F3 stays: the contract oracle now accepts memkv's answers to it *)
Example C11_f3_witness_accepted :
  exists cf, o_run_gen ByValue (fun _ _ => 0) (cs_of []) None (combine f3_ops (snd (a_run memkv [] None f3_ops))) = inl cf.
Proof. exact f3_witness_accepted. Qed.

Example C11_ex_tikv : tikv_R [([98], [49])] (cs_of [([98], [49])]) /\ Forall not_panic (snd (a_run tikv [] None ex_ops)).
Proof. split; [repeat split; repeat constructor|]. vm_compute. repeat constructor. Qed.

Example C11_ex_badger : badger_R (mk_bstate [([98], ([49], 0))] 0) (cs_of [([98], [49])]) /\ seq_fresh ex_ops /\
  Forall not_panic (snd (a_run badger (mk_bstate [] 0) None ex_ops)).
Proof. split; [repeat split; repeat constructor|]. split; [repeat constructor|]. vm_compute. repeat constructor. Qed.

(* the oracle is not vacuous: it rejects a wrong answer (a CAS on a missing key reported as not-found, the defect
   fixed by da987ef) and a backward iteration that leaks a key below the interval (fixed by 7c0e624) *)
Example C11_oracle_rejects_not_found :
  c11_oracle (mk_c11 ETiKV [(SBatch [BCAS [97] [50] [49] 0], OBatch RNotFound None)] []) = Some 0.
Proof. vm_compute. reflexivity. Qed.

Example C11_oracle_rejects_leak :
  c11_oracle (mk_c11 ETiKV [(SBatch [BPut [98] [49] 0], OBatch ROk None);
                            (SIter [99; 57] [99; 48] 0, OIter ROk [([98], [49])])] [([98], [49])]) = Some 0.
Proof. vm_compute. reflexivity. Qed.
