(* C11 — Every storage adapter honours the engine contract.
   Property theorems only: each is closed by `exact <lemma>` and followed by Print Assumptions.

   Reading guide.  `refines_on A m R ok` (Proofs/C11Cases.v): from adapter state s and contract state c with R s c,
   for every operation sequence admitted by `ok` (batches with several conditions, conditions on missing keys, a key
   written twice, Del-then-CAS, gets, deletes, compare-and-deletes through a held iterator, forward / backward /
   limited iterations with arbitrary bounds, start = end) the contract oracle o_run_gen accepts the adapter's answers
   step by step — error class ok | cond_failed | not_found; the payload of a failed put-if-absent; iterator output =
   a prefix of the contract's interval output (hence inside the interval and in order) of length >= min(limit, all) —
   and the final states are related by R again (the raw contents are the contract's map; a failed batch leaves
   the contract state, hence the map, unchanged).
   `C11_full_statement A m R` is the same without any restriction on the operations of the sequences (the only side
   condition left, inside refines_on, is that the model's own run contains no RPanic observation — a DelCurrent without a
   held iterator, which the driver never issues; it is decidable, c11_cleanb evaluates it).  It is proved for memkv (finding
   C11-F3 is fixed) and REFUTED for Badger and TiKV by the two open deviations recorded in known_findings.d/C11.json,
   for which the complement is proved. *)
From KB Require Import Base.Cases Model.Store Model.Adapters Model.C11Cases
  Proofs.Store Proofs.StoreSpec Proofs.AdapterLists Proofs.Adapters Proofs.C11Cases Proofs.C11TwoBatches Proofs.C11Kinds Proofs.C11Exact Model.C11Wrap Proofs.C11Wrap.
Local Open Scope N_scope.

(* ---- the contract's ordered map ---- *)

Theorem C11_set_sorted : forall (s : store) k v, sorted s -> sorted (set s k v).
Proof. exact (@set_sorted bytes). Qed.
Print Assumptions C11_set_sorted.

Theorem C11_remove_sorted : forall (s : store) k, sorted s -> sorted (remove s k).
Proof. exact (@remove_sorted bytes). Qed.
Print Assumptions C11_remove_sorted.

Theorem C11_get_set_same : forall (s : store) k v, get (set s k v) k = Some v.
Proof. exact (@get_set_same bytes). Qed.
Print Assumptions C11_get_set_same.

Theorem C11_get_set_other : forall (s : store) k k' v, k' <> k -> get (set s k v) k' = get s k'.
Proof. exact (@get_set_other bytes). Qed.
Print Assumptions C11_get_set_other.

Theorem C11_get_remove_same : forall (s : store) k, get (remove s k) k = None.
Proof. exact (@get_remove_same bytes). Qed.
Print Assumptions C11_get_remove_same.

Theorem C11_get_remove_other : forall (s : store) k k', k' <> k -> get (remove s k) k' = get s k'.
Proof. exact (@get_remove_other bytes). Qed.
Print Assumptions C11_get_remove_other.

Theorem C11_store_extensional : forall (s1 s2 : store), sorted s1 -> sorted s2 -> (forall k, get s1 k = get s2 k) -> s1 = s2.
Proof. exact (@sorted_ext bytes). Qed.
Print Assumptions C11_store_extensional.

(* an iteration yields exactly the records of the interval (start inclusive, end exclusive) ... *)
Theorem C11_iter_exact : forall (s : store) a b e,
  In e (iter_all s a b) <->
  In e s /\ (if is_fwd a b then bcmp a (fst e) <> Gt /\ bcmp (fst e) b = Lt
             else bcmp b (fst e) = Lt /\ bcmp (fst e) a <> Gt).
Proof. exact (@iter_all_in bytes). Qed.
Print Assumptions C11_iter_exact.

(* ... in the requested direction; nothing when start = end *)
Theorem C11_iter_ascending : forall (s : store) a b, sorted s -> is_fwd a b = true -> sorted (iter_all s a b).
Proof. exact (@iter_all_fwd_sorted bytes). Qed.
Print Assumptions C11_iter_ascending.

Theorem C11_iter_descending : forall (s : store) a b, sorted s -> is_fwd a b = false -> sorted (rev (iter_all s a b)).
Proof. exact (@iter_all_bwd_sorted bytes). Qed.
Print Assumptions C11_iter_descending.

Theorem C11_iter_same_bounds : forall (s : store) a, iter_all s a a = [].
Proof. exact (@iter_all_same bytes). Qed.
Print Assumptions C11_iter_same_bounds.

Theorem C11_batch_sorted : forall m c ops c', cs_sorted c -> batch_eval m c ops = Applied c' -> cs_sorted c'.
Proof. exact batch_eval_sorted. Qed.
Print Assumptions C11_batch_sorted.

(* ---- the contract's conditional operations, characterised (not merely defined): each takes effect exactly when its
   condition holds, with exactly the stated effect; a batch is applied as a whole or fails at its first failing condition ---- *)
Theorem C11_putnx_iff : forall m c k v t,
  (exists c', batch_eval m c [PutIfNotExist k v t] = Applied c') <-> get (st c) k = None.
Proof. exact putnx_iff. Qed.
Print Assumptions C11_putnx_iff.

Theorem C11_putnx_effect : forall m c k v t c', batch_eval m c [PutIfNotExist k v t] = Applied c' ->
  get (st c') k = Some v /\ same_elsewhere (st c) (st c') k.
Proof. exact putnx_effect. Qed.
Print Assumptions C11_putnx_effect.

Theorem C11_putnx_fails : forall m c k v t i a, batch_eval m c [PutIfNotExist k v t] = CondFailed i a ->
  i = 0%nat /\ a = get (st c) k /\ a <> None.
Proof. exact putnx_fails. Qed.
Print Assumptions C11_putnx_fails.

Theorem C11_cas_iff : forall m c k nv ov t,
  (exists c', batch_eval m c [CAS k nv ov t] = Applied c') <-> get (st c) k = Some ov.
Proof. exact cas_iff. Qed.
Print Assumptions C11_cas_iff.

Theorem C11_cas_effect : forall m c k nv ov t c', batch_eval m c [CAS k nv ov t] = Applied c' ->
  get (st c') k = Some nv /\ same_elsewhere (st c) (st c') k.
Proof. exact cas_effect. Qed.
Print Assumptions C11_cas_effect.

Theorem C11_cas_fails : forall m c k nv ov t i a, batch_eval m c [CAS k nv ov t] = CondFailed i a ->
  i = 0%nat /\ a = get (st c) k /\ a <> Some ov.
Proof. exact cas_fails. Qed.
Print Assumptions C11_cas_fails.

Theorem C11_delcur_by_value_iff : forall c k v stamp,
  (exists c', batch_eval ByValue c [DelCur k v stamp] = Applied c') <-> get (st c) k = Some v.
Proof. exact delcur_value_iff. Qed.
Print Assumptions C11_delcur_by_value_iff.

Theorem C11_delcur_by_version_iff : forall c k v stamp,
  (exists c', batch_eval ByVersion c [DelCur k v stamp] = Applied c') <->
  (get (st c) k <> None /\ get (stamps c) k = Some stamp).
Proof. exact delcur_version_iff. Qed.
Print Assumptions C11_delcur_by_version_iff.

Theorem C11_delcur_effect : forall m c k v stamp c', batch_eval m c [DelCur k v stamp] = Applied c' ->
  get (st c') k = None /\ same_elsewhere (st c) (st c') k.
Proof. exact delcur_effect. Qed.
Print Assumptions C11_delcur_effect.

Theorem C11_batch_all_or_nothing : forall m c ops i a, batch_eval m c ops = CondFailed i a ->
  exists pre o post w z, ops = pre ++ o :: post /\ length pre = i /\
                         batch_go m (clock c + 1) (st c) (stamps c) 0 pre = inl (w, z) /\
                         bop_step m (clock c + 1) w z o = inr a.
Proof. exact batch_fails_at_first. Qed.
Print Assumptions C11_batch_all_or_nothing.

Theorem C11_batch_applied_all : forall m c ops c', batch_eval m c ops = Applied c' -> ops <> [] ->
  batch_go m (clock c + 1) (st c) (stamps c) 0 ops = inl (st c', stamps c').
Proof. exact batch_applied_all. Qed.
Print Assumptions C11_batch_applied_all.

(* ---- refinement, per adapter ---- *)

(* memkv refines the contract (compare-and-delete by value) on every operation sequence *)
Theorem C11_refines_memkv : C11_full_statement memkv ByValue mem_R.
Proof. exact refines_memkv. Qed.
Print Assumptions C11_refines_memkv.

(* TiKV refines the contract (by value) on sequences that write no empty value (finding C11-F1) *)
Theorem C11_refines_tikv_except_F1 : refines_on tikv ByValue tikv_R seq_nonempty.
Proof. exact refines_tikv. Qed.
Print Assumptions C11_refines_tikv_except_F1.

Theorem C11_refines_tikv_refuted : ~ C11_full_statement tikv ByValue tikv_R.
Proof. exact full_tikv_refuted. Qed.
Print Assumptions C11_refines_tikv_refuted.

(* Badger refines the contract (compare-and-delete by version) on sequences without a DelCurrent(held iterator)
   after a write in the same batch (finding C11-F2) *)
Theorem C11_refines_badger_except_F2 : refines_on badger ByVersion badger_R seq_fresh.
Proof. exact refines_badger. Qed.
Print Assumptions C11_refines_badger_except_F2.

Theorem C11_refines_badger_refuted : ~ C11_full_statement badger ByVersion badger_R.
Proof. exact full_badger_refuted. Qed.
Print Assumptions C11_refines_badger_refuted.

(* the metrics wrapper refines whatever its inner adapter refines *)
Theorem C11_refines_wrapper : forall A m (S : sim A m), refines_on (wrapper A) m (sim_R A m S) (Forall (sop_ok S)).
Proof. exact refines_wrapper. Qed.
Print Assumptions C11_refines_wrapper.

(* the exact per-batch statements behind the sequence theorems (complement of the deviations at batch level) *)
Theorem C11_batch_refines_memkv : forall s c ops, mem_R s c ->
  batch_proj_ok ops (batch_eval ByValue c ops) (snd (fst (mem_batch_run s ops))) (snd (mem_batch_run s ops)) = true /\
  match batch_eval ByValue c ops with
  | Applied c' => mem_R (fst (fst (mem_batch_run s ops))) c'
  | CondFailed _ _ => fst (fst (mem_batch_run s ops)) = s
  end.
Proof. exact mem_batch_sim. Qed.
Print Assumptions C11_batch_refines_memkv.

Theorem C11_batch_refines_tikv : forall s c ops, tikv_R s c -> Forall bop_wnonempty ops ->
  batch_proj_ok ops (batch_eval ByValue c ops) (snd (fst (t_batch s ops))) (snd (t_batch s ops)) = true /\
  match batch_eval ByValue c ops with
  | Applied c' => tikv_R (fst (fst (t_batch s ops))) c'
  | CondFailed _ _ => fst (fst (t_batch s ops)) = s
  end.
Proof. exact tikv_batch_sim. Qed.
Print Assumptions C11_batch_refines_tikv.

Theorem C11_batch_refines_badger : forall s c ops, badger_R s c -> written_before_delcur ops [] = false ->
  batch_proj_ok ops (batch_eval ByVersion c ops) (snd (fst (b_batch s ops))) (snd (b_batch s ops)) = true /\
  match batch_eval ByVersion c ops with
  | Applied c' => badger_R (fst (fst (b_batch s ops))) c'
  | CondFailed _ _ => fst (fst (b_batch s ops)) = s
  end.
Proof. exact badger_batch_sim. Qed.
Print Assumptions C11_batch_refines_badger.

(* iterators: memkv delivers the whole interval, Badger exactly the limit, TiKV limit + 1 — always a prefix *)
Theorem C11_iter_memkv : forall s a b l, sorted s -> mem_iter s a b l = iter_all s a b.
Proof. exact mem_iter_all. Qed.
Print Assumptions C11_iter_memkv.

Theorem C11_iter_tikv : forall s a b l, sorted s ->
  exists n, t_iter s a b l = firstn n (iter_all s a b) /\ (min_count l (length (iter_all s a b)) <= n)%nat.
Proof. exact t_iter_prefix. Qed.
Print Assumptions C11_iter_tikv.

Theorem C11_iter_badger : forall s c a b l, badger_R s c ->
  exists n, b_iter s a b l = firstn n (citems ByVersion c a b) /\ (min_count l (length (citems ByVersion c a b)) <= n)%nat.
Proof. exact b_iter_prefix. Qed.
Print Assumptions C11_iter_badger.

(* ---- all or nothing: a batch that does not answer ok leaves the adapter's state untouched (no hypothesis) ---- *)
Theorem C11_atomic_memkv : forall s ops, snd (fst (mem_batch_run s ops)) <> ROk -> fst (fst (mem_batch_run s ops)) = s.
Proof. exact mem_atomic. Qed.
Print Assumptions C11_atomic_memkv.

Theorem C11_atomic_badger : forall s ops, snd (fst (b_batch s ops)) <> ROk -> fst (fst (b_batch s ops)) = s.
Proof. exact badger_atomic. Qed.
Print Assumptions C11_atomic_badger.

Theorem C11_atomic_tikv : forall env s ops, snd (fst (t_batch_env env s ops)) <> ROk -> fst (fst (t_batch_env env s ops)) = s.
Proof. exact tikv_atomic. Qed.
Print Assumptions C11_atomic_tikv.

(* ---- the executable oracle used on the implementation's observations accepts every model run outside the deviations ---- *)
Theorem C11_oracle_sound : forall c, c11_clean c -> c11_check c = true -> c11_oracle c = None.
Proof. exact c11_oracle_sound. Qed.
Print Assumptions C11_oracle_sound.

(* ---- two interleaved batches: the engines' optimistic concurrency, as modelled, gives serialisable outcomes on every
   engine (finding C11-F4 is fixed: Badger's commit conflict is reported as a failed condition) ---- *)
Theorem C11_interleaved_serialisable : forall e variant, il_oracle e (il_expected e variant) = None.
Proof. exact il_expected_ok. Qed.
Print Assumptions C11_interleaved_serialisable.

(* regression: Badger's answer before the repair (its own conflict error, class other) is rejected by the oracle *)
Example C11_interleaved_old_badger_rejected : il_oracle EBadger (true, ROther, false, true) = Some 0.
Proof. exact il_old_badger_rejected. Qed.

(* ---- exactness of the two open deviations: on EVERY operation sequence (no restriction at all) the TiKV / Badger model is
   either accepted by the contract oracle throughout, or the oracle stops at a batch with exactly the finding's
   signature: code 1 (an empty value is written, class other, nothing applied) resp. code 2 (a DelCurrent after a write
   in the same batch, class ok where the contract says condition failed).  There is no other disagreement. ---- *)
Theorem C11_refines_tikv_exact : forall ops s c h, tikv_R s c -> Forall not_panic (snd (a_run tikv s h ops)) ->
  (exists cf, o_run_gen ByValue (batch_finding ETiKV) c h (combine ops (snd (a_run tikv s h ops))) = inl cf /\
              tikv_R (fst (a_run tikv s h ops)) cf)
  \/ o_run_gen ByValue (batch_finding ETiKV) c h (combine ops (snd (a_run tikv s h ops))) = inr 1.
Proof. exact tikv_run_exact. Qed.
Print Assumptions C11_refines_tikv_exact.

Theorem C11_refines_badger_exact : forall ops s c h, badger_R s c -> stamps_le c -> held_le c h ->
  Forall not_panic (snd (a_run badger s h ops)) ->
  (exists cf, o_run_gen ByVersion (batch_finding EBadger) c h (combine ops (snd (a_run badger s h ops))) = inl cf /\
              badger_R (fst (a_run badger s h ops)) cf)
  \/ o_run_gen ByVersion (batch_finding EBadger) c h (combine ops (snd (a_run badger s h ops))) = inr 2.
Proof. exact badger_run_exact. Qed.
Print Assumptions C11_refines_badger_exact.

(* on the driver's cases: whatever case the models reproduce, the oracle says None or the engine's own finding code *)
Theorem C11_oracle_exact : forall c, c11_check c = true ->
  match c with
  | mk_c11 e steps _ => Forall not_panic (map snd steps) -> In (c11_oracle c) (exact_codes e)
  | _ => c11_oracle c = None
  end.
Proof. exact c11_oracle_exact. Qed.
Print Assumptions C11_oracle_exact.

(* ---- two concurrent batches, ANY operation lists, any state (the KInterleave cases are three instances): batch 1 is begun,
   batch 2 is begun and committed, batch 1 is committed.  On every adapter model the outcome (class of batch 1, class of
   batch 2, final state) is that of one of the two serial orders, or batch 1 is refused without effect (failed-condition
   class; batch 2's class and the state are then those of batch 2 alone) and then a genuine conflict exists: a key both wrote (TiKV) / a key batch 1 read from the store and batch 2
   wrote (Badger).  memkv serialises by its mutex. ---- *)
Theorem C11_two_batches_serialisable_memkv : forall s0 b1 b2,
  let '(b2first, c1, c2, sf) := tx2_memkv s0 b1 b2 in b2first = false /\ (c1, c2, sf) = serial memkv s0 b1 b2.
Proof. exact tx2_memkv_serial. Qed.
Print Assumptions C11_two_batches_serialisable_memkv.

Theorem C11_two_batches_serialisable_tikv : forall s0 b1 b2, sorted s0 ->
  let '(b2first, c1, c2, sf) := tx2_tikv s0 b1 b2 in
  b2first = true /\
  tx2_verdict (serial tikv s0 b1 b2) (serial tikv s0 b2 b1) (alone tikv s0 b2) (t_conflict s0 b1 b2) (c1, c2, sf).
Proof. exact tx2_tikv_serialisable. Qed.
Print Assumptions C11_two_batches_serialisable_tikv.

(* Badger: outside finding C11-F2 (no DelCurrent after a write to the same key inside batch 1) *)
Theorem C11_two_batches_serialisable_badger : forall s0 b1 b2, sorted (b_map s0) -> written_before_delcur b1 [] = false ->
  let '(b2first, c1, c2, sf) := tx2_badger s0 b1 b2 in
  b2first = true /\
  tx2_verdict (serial badger s0 b1 b2) (serial badger s0 b2 b1) (alone badger s0 b2) (b_conflict s0 b1 b2) (c1, c2, sf).
Proof. exact tx2_badger_serialisable. Qed.
Print Assumptions C11_two_batches_serialisable_badger.

(* ---- what the models predict for the special case kinds of the driver (C11_oracle_sound covers all of them) ---- *)

(* snapshot sequences (SHoldDrain: iterate, commit a batch, drain — judged by C11_oracle_sound like every sequence, the
   oracle holding everything the iterator delivered against the contract state at its creation); in particular,
   with no limit an iterator delivers exactly the interval's records at the moment of its creation, in the
   requested direction; nothing committed later occurs in the statement *)
Theorem C11_iterator_snapshot : forall A m (S : sim A m) s c a b, sim_R A m S s c ->
  map item_kv (a_iter A s a b 0) = iter_all (st c) a b.
Proof. exact snapshot_exact. Qed.
Print Assumptions C11_iterator_snapshot.

(* KWrapFault: the metrics wrapper hands every answer of its engine on unchanged *)
Theorem C11_wrapper_passthrough : forall A,
  (forall s k, a_get (wrapper A) s k = a_get A s k) /\
  (forall s a b l, a_iter (wrapper A) s a b l = a_iter A s a b l) /\
  (forall s ops, a_batch (wrapper A) s ops = a_batch A s ops) /\
  (forall s k, a_del (wrapper A) s k = a_del A s k) /\
  (forall s i, a_delcur (wrapper A) s i = a_delcur A s i).
Proof. exact wrapper_passthrough. Qed.
Print Assumptions C11_wrapper_passthrough.

(* KBigBatch: any number of Puts followed by a CAS on a key that is neither stored nor among them: every adapter that
   refines the contract answers "condition failed" and keeps its content; without the CAS it answers ok *)
Theorem C11_big_batch_fails_whole : forall A m (S : sim A m) s c puts k nv ov t,
  sim_R A m S s c -> okb A m S (puts ++ [CAS k nv ov t]) ->
  Forall is_put puts -> get (st c) k = None -> ~ In k (map bop_key puts) ->
  snd (fst (a_batch A s (puts ++ [CAS k nv ov t]))) = RCond /\
  a_dump A (fst (fst (a_batch A s (puts ++ [CAS k nv ov t])))) = a_dump A s.
Proof. exact big_batch_model. Qed.
Print Assumptions C11_big_batch_fails_whole.

Theorem C11_big_batch_ok : forall A m (S : sim A m) s c puts,
  sim_R A m S s c -> okb A m S puts -> Forall is_put puts -> snd (fst (a_batch A s puts)) = ROk.
Proof. exact big_batch_model_ok. Qed.
Print Assumptions C11_big_batch_ok.

(* validity is decidable and evaluated: a case that passes c11_cleanb and the check is covered *)
Theorem C11_cleanb_sound : forall c, c11_cleanb c = true -> c11_clean c.
Proof. exact c11_cleanb_ok. Qed.
Print Assumptions C11_cleanb_sound.

Theorem C11_oracle_sound_checked : forall c, c11_cleanb c = true -> c11_check c = true -> c11_oracle c = None.
Proof. exact c11_oracle_sound_checked. Qed.
Print Assumptions C11_oracle_sound_checked.

(* ---- the metrics decorator as a program of its own (Model/C11Wrap.v: forwarding calls, wrapped iterators, emission
   log) — unlike `wrapper`, which is a record copy ---- *)

(* invisible: on every adapter, from every state in which the decorator holds a wrapped iterator exactly when the
   caller holds an item, every operation sequence reaches the decorated adapter as the same calls and is answered
   with the same answers as on the bare adapter *)
Theorem C11_decorator_transparent : forall A ops (w : wstate A), hinv w ->
  a_run A (w_in w) (w_held w) ops = (w_in (fst (w_run A w ops)), map fst (snd (w_run A w ops))).
Proof. exact w_run_transparent. Qed.
Print Assumptions C11_decorator_transparent.

(* truthful: in every run the state tags emitted for a call are the tag of the answer the caller received, a batch
   reports the number of operations staged, and a call that panicked left no emission *)
Theorem C11_decorator_truthful : forall A ops (w : wstate A),
  forallb truthful_step (combine ops (snd (w_run A w ops))) = true.
Proof. exact w_run_truthful. Qed.
Print Assumptions C11_decorator_truthful.

(* ... and through the refinement, the tag is the contract's verdict: state=success exactly for a batch the contract
   applies, state=cas_failed exactly for one it refuses *)
Theorem C11_decorator_batch_tag_is_verdict : forall A m (S : sim A m) s c ops l,
  sim_R A m S s c -> okb A m S ops ->
  match batch_eval m c ops with
  | Applied _ => batch_emissions l (snd (fst (a_batch A s ops))) = [EBatchCount (N.of_nat l) TSuccess; EBatchDur TSuccess]
  | CondFailed _ _ => batch_emissions l (snd (fst (a_batch A s ops))) = [EBatchCount (N.of_nat l) TCasFailed; EBatchDur TCasFailed]
  end.
Proof. exact batch_emission_truthful. Qed.
Print Assumptions C11_decorator_batch_tag_is_verdict.

(* the shards evaluate c11x_check / c11x_oracle: an ordinary case is judged as before, a checked KWrapMetrics case is
   a checked ordinary case of the decorated engine.  The emission log is compared separately (c11x_emissions_check;
   C11 does not speak about metrics, a disagreement there is reported, not an alarm): a case whose log the model
   reproduces has truthful emissions *)
Theorem C11_decorator_case_is_bare_case : forall e steps final,
  c11x_check (KWrapMetrics e steps final) = true -> c11_check (mk_c11 e (bare steps) final) = true.
Proof. exact wrap_check_bare. Qed.
Print Assumptions C11_decorator_case_is_bare_case.

Theorem C11_decorator_case_truthful : forall e steps final,
  c11x_emissions_check (KWrapMetrics e steps final) = true -> forallb truthful_step steps = true.
Proof. exact wrap_emissions_truthful. Qed.
Print Assumptions C11_decorator_case_truthful.

Theorem C11x_oracle_sound_checked : forall c, c11x_cleanb c = true -> c11x_check c = true -> c11x_oracle c = None.
Proof. exact c11x_oracle_sound_checked. Qed.
Print Assumptions C11x_oracle_sound_checked.

(* the decorator over a failing engine: whatever class one failing method (Get, Del, DelCurrent, Commit) of the
   decorated engine answers with — not found, failed condition, conflict, any other error — is the class the
   decorator's caller sees, and the stored record is untouched; the KWrapFault check of these kinds is equality with
   this model (kind 4, a failing Iter, is outside the adapter signature: a_iter has no error outcome) *)
Theorem C11_decorator_passes_engine_errors : forall kind c, kind < 4 -> fault_model kind c = (c, true).
Proof. exact fault_model_passes. Qed.
Print Assumptions C11_decorator_passes_engine_errors.

Theorem C11_wrapfault_check_is_decorator_model : forall kind injected observed intact, kind < 4 ->
  c11_check (KWrapFault kind injected observed intact) = true <-> (observed, intact) = fault_model kind injected.
Proof. exact wrapfault_check_is_model. Qed.
Print Assumptions C11_wrapfault_check_is_decorator_model.

(* non-vacuity: a run with a held wrapped iterator, a refused batch, a compare-and-delete, a missing key and an
   iterator replaced while held; its emissions *)
Definition ex_wops : list sop :=
  [SBatch [BPut [98] [49] 0; BPut [100] [50] 0];
   SHold [97] [122] 0 0;
   SBatch [BCAS [120] [50] [49] 0];
   SDelCur;
   SGet [98];
   SHold [97] [122] 2 5;
   SIter [97] [122] 1].
Example C11_ex_decorator :
  map snd (snd (w_run memkv (w_init memkv) ex_wops)) =
  [ [EBatchCount 2 TSuccess; EBatchDur TSuccess];
    [EIterStart TSuccess; EIterOpened false];
    [EBatchCount 1 TCasFailed; EBatchDur TCasFailed];
    [EOp WCmpDel TSuccess];
    [EOp WGet TNotFound];
    [EIterFetched 0 false; EIterAvg false; EIterSum false; EIterStart TSuccess; EIterOpened true;
     EIterFetched 1 true; EIterAvg true; EIterSum true];
    [EIterStart TSuccess; EIterOpened true; EIterFetched 1 true; EIterAvg true; EIterSum true] ].
Proof. vm_compute. reflexivity. Qed.

(* C11x_oracle_sound_checked / C11_decorator_case_truthful are not vacuous: the case made of the decorator model's own run
   of ex_wops over memkv is clean, checked (answers and emission log) and judged None *)
Definition ex_wcase : c11x_case :=
  let r := w_run memkv (w_init memkv) ex_wops in
  KWrapMetrics EMem (combine ex_wops (snd r)) (a_dump memkv (w_in (fst r))).
Example C11_ex_decorator_case :
  c11x_cleanb ex_wcase = true /\ c11x_check ex_wcase = true /\ c11x_emissions_check ex_wcase = true /\ c11x_oracle ex_wcase = None.
Proof. repeat split; vm_compute; reflexivity. Qed.

(* ---- non-vacuity ---- *)

(* the relations are inhabited by a non-trivial state, and a sequence with a failing second condition, a CAS on a
   missing key, a backward iteration over an empty interval above stored keys and a DelCurrent after a change is
   admitted by every `ok` and panic-free *)
Definition ex_ops : list sop :=
  [SBatch [BPut [98] [49] 0; BPut [100] [50] 0; BPut [102] [51] 0];
   SBatch [BCAS [98] [57] [49] 0; BPutNX [100] [55] 0];
   SBatch [BCAS [97] [50] [49] 0];
   SIter [99; 57] [99; 48] 0; SIter [102] [98] 1;
   SHold [0] [255; 255] 0 0; SBatch [BPut [98] [52] 0]; SDelCur; SGet [98]].

Example C11_ex_memkv : mem_R [([98], [49])] (cs_of [([98], [49])]) /\ Forall not_panic (snd (a_run memkv [([98], [49])] None ex_ops)).
Proof. split; [repeat split; repeat constructor|]. vm_compute. repeat constructor. Qed.

(* the witness of the repaired finding C11-F3 stays: the contract oracle now accepts memkv's answers to it *)
Example C11_f3_witness_accepted :
  exists cf, o_run_gen ByValue (fun _ _ => 0) (cs_of []) None (combine f3_ops (snd (a_run memkv [] None f3_ops))) = inl cf.
Proof. exact f3_witness_accepted. Qed.

Example C11_ex_tikv : tikv_R [([98], [49])] (cs_of [([98], [49])]) /\ seq_nonempty ex_ops /\
  Forall not_panic (snd (a_run tikv [([98], [49])] None ex_ops)).
Proof. split; [repeat split; repeat constructor|]. split; [repeat constructor; discriminate|]. vm_compute. repeat constructor. Qed.

Example C11_ex_badger : badger_R (mk_bstate [([98], ([49], 0))] 0) (cs_of [([98], [49])]) /\ seq_fresh ex_ops /\
  Forall not_panic (snd (a_run badger (mk_bstate [([98], ([49], 0))] 0) None ex_ops)).
Proof. split; [repeat split; repeat constructor|]. split; [repeat constructor|]. vm_compute. repeat constructor. Qed.

(* the oracle is not vacuous: it rejects a wrong answer (a CAS on a missing key reported as not-found, the defect
   fixed by da987ef) and a backward iteration that leaks a key below the interval (fixed by 7c0e624) *)
Example C11_oracle_rejects_not_found :
  c11_oracle (mk_c11 ETiKV [(SBatch [BCAS [97] [50] [49] 0], OBatch RNotFound None)] []) = Some 0.
Proof. vm_compute. reflexivity. Qed.

Example C11_oracle_rejects_leak :
  c11_oracle (mk_c11 ETiKV [(SBatch [BPut [98] [49] 0], OBatch ROk None);
                            (SIter [99; 57] [99; 48] 0, OIter ROk [([98], [49])])] [([98], [49])]) = Some 0.
Proof. vm_compute. reflexivity. Qed.

(* the three verdicts of C11_two_batches_serialisable all occur (TiKV model, store {b -> 1}) *)
Example C11_two_batches_verdicts :
  (* disjoint keys: applied, the serial order b2, b1 *)
  tx2_tikv [([98], [49])] [Put [97] [120] 0] [Put [99] [121] 0] = (true, ROk, ROk, [([97], [120]); ([98], [49]); ([99], [121])]) /\
  (* batch 1's condition fails on its own snapshot: the serial order b1, b2 *)
  tx2_tikv [([98], [49])] [CAS [98] [50] [57] 0; Put [97] [120] 0] [Put [98] [51] 0] = (true, RCond, ROk, [([98], [51])]) /\
  (* the guard is invalidated by batch 2: refused without effect *)
  tx2_tikv [([98], [49])] [CAS [98] [49] [49] 0; Put [97] [120] 0] [Put [98] [51] 0] = (true, RCond, ROk, [([98], [51])]).
Proof. repeat split; vm_compute; reflexivity. Qed.

(* the hypotheses of the exactness theorems hold at the start, and both alternatives occur *)
Example C11_exact_inhabited :
  tikv_R [] (cs_of []) /\ badger_R (mk_bstate [] 0) (cs_of []) /\ stamps_le (cs_of []) /\ held_le (cs_of []) None /\
  o_run_gen ByValue (batch_finding ETiKV) (cs_of []) None (combine f1_ops (snd (a_run tikv [] None f1_ops))) = inr 1 /\
  o_run_gen ByVersion (batch_finding EBadger) (cs_of []) None (combine f2_ops (snd (a_run badger (mk_bstate [] 0) None f2_ops))) = inr 2.
Proof.
  split; [repeat split; constructor|]. split; [repeat split; constructor|]. split; [exact stamps_le_init|].
  split; [intros i H; discriminate|]. split; vm_compute; reflexivity.
Qed.

(* a positive case: what the TiKV model answers to ex_ops, as a driver case: clean, passes the check, accepted *)
Definition ex_case : c11_case :=
  let '(sf, obs) := a_run tikv [] None ex_ops in mk_c11 ETiKV (combine ex_ops obs) (a_dump tikv sf).

Example C11_ex_case_covered : c11_cleanb ex_case && c11_check ex_case = true /\ c11_oracle ex_case = None.
Proof. split; vm_compute; reflexivity. Qed.

(* hypotheses of the batch-level and big-batch theorems on concrete states *)
Example C11_ex_batch_hypotheses :
  tikv_R [] (cs_of []) /\ Forall bop_wnonempty [PutIfNotExist [97] [49] 0; CAS [98] [50] [49] 0] /\
  badger_R (mk_bstate [] 0) (cs_of []) /\ written_before_delcur [Put [97] [49] 0; DelCur [98] [49] 0] [] = false /\
  okb tikv ByValue sim_tikv ([Put [97] [49] 0; Put [98] [50] 0] ++ [CAS [122] [49] [50] 0]) /\
  Forall is_put [Put [97] [49] 0; Put [98] [50] 0] /\ get (st (cs_of [])) [122] = None /\
  ~ In [122] (map bop_key [Put [97] [49] 0; Put [98] [50] 0]).
Proof.
  repeat split; try (repeat constructor; discriminate); try reflexivity.
  cbn. intros [H|[H|[]]]; discriminate.
Qed.

(* C11_atomic_*: batches that do not answer ok exist (and leave the state alone) *)
Example C11_ex_atomic :
  mem_batch_run [([98], [49])] [Put [97] [49] 0; CAS [98] [50] [57] 0] = ([([98], [49])], RCond, Some (1%nat, [98], Some [57])) /\
  snd (fst (b_batch (mk_bstate [] 0) [Put [97] [49] 0; CAS [98] [50] [57] 0])) <> ROk /\
  snd (fst (t_batch_env EnvWriteConflict [] [Put [97] [49] 0])) <> ROk.
Proof. repeat split; vm_compute; (reflexivity || discriminate). Qed.

(* C11_two_batches_serialisable_badger: hypotheses and the three verdicts on Badger *)
Definition ex_bstate : bstate := mk_bstate [([98], ([49], 1))] 1.
Example C11_two_batches_badger :
  sorted (b_map ex_bstate) /\ written_before_delcur [CAS [98] [49] [49] 0; Put [97] [120] 0] [] = false /\
  (let '(b2first, c1, c2, sf) := tx2_badger ex_bstate [CAS [98] [49] [49] 0; Put [97] [120] 0] [Put [98] [51] 0] in
   (b2first, c1, c2, b_store sf)) = (true, RCond, ROk, [([98], [51])]) /\
  (let '(b2first, c1, c2, sf) := tx2_badger ex_bstate [Put [97] [120] 0] [Put [99] [121] 0] in
   (b2first, c1, c2, b_store sf)) = (true, ROk, ROk, [([97], [120]); ([98], [49]); ([99], [121])]).
Proof. repeat split; try (repeat constructor); vm_compute; reflexivity. Qed.

(* C11_refines_wrapper: the relation of the wrapped adapter is the inner one's, inhabited at the start *)
Example C11_ex_wrapper : sim_R (wrapper memkv) ByValue (sim_wrapper memkv ByValue sim_memkv) (a_init (wrapper memkv)) (cs_of []).
Proof. exact (sim_init _ _ (sim_wrapper memkv ByValue sim_memkv)). Qed.
