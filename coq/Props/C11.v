(* C11 — Every storage adapter honours the engine contract.
   Property theorems only: each is closed by `exact <lemma>` and followed by Print Assumptions. *)
From KB Require Import Base.Cases Model.Store Model.Adapters Model.C11Cases Proofs.Store.
Local Open Scope N_scope.

(* ---- the contract's ordered map ---- *)

Theorem C11_set_sorted : forall (s : store) k v, sorted s -> sorted (set s k v).
Proof. exact (@set_sorted bytes). Qed.
Print Assumptions C11_set_sorted.

Theorem C11_remove_sorted : forall (s : store) k, sorted s -> sorted (remove s k).
Proof. exact (@remove_sorted bytes). Qed.
Print Assumptions C11_remove_sorted.

Theorem C11_get_set_same : forall (s : store) k v, get (set s k v) k = Some v.
Proof. exact (@get_set_same bytes). Qed.
Print Assumptions C11_get_set_same.

Theorem C11_get_set_other : forall (s : store) k k' v, k' <> k -> get (set s k v) k' = get s k'.
Proof. exact (@get_set_other bytes). Qed.
Print Assumptions C11_get_set_other.

Theorem C11_get_remove_same : forall (s : store) k, get (remove s k) k = None.
Proof. exact (@get_remove_same bytes). Qed.
Print Assumptions C11_get_remove_same.

Theorem C11_get_remove_other : forall (s : store) k k', k' <> k -> get (remove s k) k' = get s k'.
Proof. exact (@get_remove_other bytes). Qed.
Print Assumptions C11_get_remove_other.

(* an iteration yields exactly the records of the interval (start inclusive, end exclusive) *)
Theorem C11_iter_exact : forall (s : store) a b e,
  In e (iter_all s a b) <->
  In e s /\ (if is_fwd a b then bcmp a (fst e) <> Gt /\ bcmp (fst e) b = Lt
             else bcmp b (fst e) = Lt /\ bcmp (fst e) a <> Gt).
Proof. exact (@iter_all_in bytes). Qed.
Print Assumptions C11_iter_exact.

Theorem C11_iter_ascending : forall (s : store) a b, sorted s -> is_fwd a b = true -> sorted (iter_all s a b).
Proof. exact (@iter_all_fwd_sorted bytes). Qed.
Print Assumptions C11_iter_ascending.

Theorem C11_iter_descending : forall (s : store) a b, sorted s -> is_fwd a b = false -> sorted (rev (iter_all s a b)).
Proof. exact (@iter_all_bwd_sorted bytes). Qed.
Print Assumptions C11_iter_descending.

Theorem C11_iter_same_bounds : forall (s : store) a, iter_all s a a = [].
Proof. exact (@iter_all_same bytes). Qed.
Print Assumptions C11_iter_same_bounds.

Theorem C11_batch_sorted : forall m c ops c', cs_sorted c -> batch_eval m c ops = Applied c' -> cs_sorted c'.
Proof. exact batch_eval_sorted. Qed.
Print Assumptions C11_batch_sorted.
