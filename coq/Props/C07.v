(* C07 — Compaction never changes what a read at or above the compaction revision sees.
   Property theorems only: each is closed by `exact <lemma>` and followed by Print Assumptions. *)
From KB Require Import Base.Cases Model.Coder Model.CompactSys Model.C07Cases
  Proofs.Coder Proofs.CompactSafe Proofs.CompactPass Proofs.CompactReads.
From Coq Require Import Sorted.
Local Open Scope N_scope.

(* removing a version (k,r), r <= R, that has a newer version <= R in the current set - or a tombstone
   <= R once no older version is left, or an index record, or a record that is not there - does not
   change what any read at any revision R' >= R sees *)
Theorem C07_safe_remove : forall R V x, uniq_ver V -> premise R V x -> veq R (del_slot x V) V.
Proof. exact safe_remove. Qed.
Print Assumptions C07_safe_remove.

(* one compaction scan over a snapshot of whole keys (sorted, as the engine iterates), for EVERY
   assignment of outcomes to its engine deletes (Ok / compare failure / other failure / compactor
   dies, in any positions) and EVERY interleaving of writers' commits above R between two deletes:
   every delete issued satisfies C07_safe_remove's premise in the store of that moment (ds_safe is
   premiseb evaluated on the current store), and the store reads at every revision >= R exactly like
   the ghost store that received the writers' commits and none of the deletes.
   `good` = no plain version delete was answered with a compare failure (see C07_good_needed). *)
Theorem C07_pass : forall R V snap oc,
  scan_ok R V snap oc -> good (scan R V snap oc) ->
  Forall (fun s => ds_safe s = true) (d_trace (scan R V snap oc)) /\
  veq R (d_store (scan R V snap oc)) (d_ghost (scan R V snap oc)) /\
  (forall k r v, In (RVer k r v) V -> In (RVer k r v) (d_ghost (scan R V snap oc))) /\
  (forall k r v, In (RVer k r v) (d_ghost (scan R V snap oc)) -> In (RVer k r v) V \/ In (RVer k r v) (flat_map fst oc)).
Proof. exact scan_safe. Qed.
Print Assumptions C07_pass.

(* without concurrent writers: the reads are those of the store before the pass *)
Theorem C07_pass_sequential : forall R V snap (os : list outcome),
  let oc := map (fun o => ([], o)) os in
  scan_ok R V snap oc -> good (scan R V snap oc) -> veq R (d_store (scan R V snap oc)) V.
Proof. exact scan_safe_seq. Qed.
Print Assumptions C07_pass_sequential.

(* the executable reads are functions of `visible`: Get (hence deleted keys do not reappear, live keys
   do not vanish) and List/Count over any key list agree on stores that read the same from R on *)
Theorem C07_get_spec : forall V R k r v, uniq_ver V -> (get_at V R k = Some (r, v) <-> visible V R k r v).
Proof. exact get_at_spec. Qed.
Print Assumptions C07_get_spec.

Theorem C07_get_unchanged : forall R A B R' k,
  uniq_ver A -> uniq_ver B -> veq R A B -> R <= R' -> get_at A R' k = get_at B R' k.
Proof. exact veq_get_at. Qed.
Print Assumptions C07_get_unchanged.

Theorem C07_list_unchanged : forall R A B R' ks,
  uniq_ver A -> uniq_ver B -> veq R A B -> R <= R' -> list_keys ks A R' = list_keys ks B R'.
Proof. exact veq_list_keys. Qed.
Print Assumptions C07_list_unchanged.

Theorem C07_no_reappear_no_vanish : forall R A B R' k,
  uniq_ver A -> uniq_ver B -> veq R A B -> R <= R' -> (get_at A R' k = None <-> get_at B R' k = None).
Proof. exact veq_absent. Qed.
Print Assumptions C07_no_reappear_no_vanish.

(* ---------- non-vacuity and the hypotheses that are needed ---------- *)

Definition ka : bytes := [97].
Definition kb : bytes := [98].
Definition exV : store :=
  [RIdx ka 103 true; RVer ka 101 [1]; RVer ka 102 [2]; RVer ka 103 tombstone;
   RIdx kb 105 false; RVer kb 104 [4]; RVer kb 105 [5]].
(* a writer re-creates ka at 106 just before the third delete, which then fails *)
Definition exOc : list (list rec * outcome) :=
  [([], OOk); ([], OOk); ([RIdx ka 106 false; RVer ka 106 [6]], OFailOther)].

Example C07_ex_scan_ok : scan_ok 105 exV exV exOc.
Proof.
  split.
  - split.
    + repeat (constructor; try (vm_compute; reflexivity)).
    + intros y Hy. cbn in Hy. repeat (destruct Hy as [<-|Hy]; [discriminate|]). destruct Hy.
    + intros k r v Hy. cbn in Hy. repeat (destruct Hy as [Hy|Hy]; [try discriminate; injection Hy as <- <- <-; lia|]). destruct Hy.
  - intros y Hy _. exact Hy.
  - intros k r v Hy _. exact Hy.
  - intros k r v v' H1 H2. cbn in H1, H2.
    repeat match goal with
           | H : _ \/ _ |- _ => destruct H as [H|H]
           | H : False |- _ => destruct H
           | H : RIdx _ _ _ = RVer _ _ _ |- _ => discriminate H
           end; congruence.
  - intros k r v Hy. cbn in Hy. repeat (destruct Hy as [Hy|Hy]; [try discriminate; injection Hy as <- <- <-; lia|]). destruct Hy.
Qed.

Example C07_ex_good : good (scan 105 exV exV exOc).
Proof.
  intros s Hs. vm_compute in Hs. repeat (destruct Hs as [<-|Hs]; [intros [H1 H2]; discriminate|]). destruct Hs.
Qed.

(* the run: index compare-and-delete, version 101, then the delete of 102 fails: 102 and the tombstone stay *)
Example C07_ex_run :
  map (fun s => (ds_kind s, ds_target s, ds_out s, ds_safe s)) (rev (d_trace (scan 105 exV exV exOc)))
  = [(KDelCur, RIdx ka 103 true, OOk, true); (KDel, RVer ka 101 [1], OOk, true); (KDel, RVer ka 102 [2], OFailOther, true);
     (KDel, RVer kb 104 [4], OOk, true)]
  /\ get_at (d_store (scan 105 exV exV exOc)) 105 ka = None
  /\ get_at (d_store (scan 105 exV exV exOc)) 106 ka = Some (106, [6]).
Proof. vm_compute. repeat split. Qed.

(* `good` is needed: a plain delete answered with a compare failure (not recorded as a failed key by
   updateSkippedRawKey) lets the pass delete the tombstone over a surviving version: the deleted key
   reappears (finding C07-F2) *)
Example C07_good_needed :
  let os := [OOk; OOk; OFailCond] in
  get_at exV 105 ka = None /\
  get_at (d_store (scan 105 exV exV (map (fun o => ([], o)) os))) 105 ka = Some (102, [2]).
Proof. vm_compute. split; reflexivity. Qed.

(* the tombstone clause of the premise is needed: removing the newest live version changes reads *)
Example C07_premise_needed :
  get_at (del_slot (RVer kb 105 [5]) exV) 105 kb <> get_at exV 105 kb.
Proof. vm_compute. discriminate. Qed.

(* the order of the deletes is load-bearing: deleting the tombstone before the value it shadows is not
   covered by the premise (an older version is left) and would resurrect the key if the next delete failed *)
Example C07_order_needed :
  premiseb 105 exV (RVer ka 103 tombstone) = false /\
  get_at (del_slot (RVer ka 103 tombstone) exV) 105 ka = Some (102, [2]).
Proof. vm_compute. split; reflexivity. Qed.

(* compaction borders: nested / duplicated skipped prefixes compact inside a skipped range (finding C07-F1) *)
Definition P : bytes := [47;114].                        (* "/r" *)
Definition Ps : bytes := [47;114;47;115].                (* "/r/s" *)
Definition Pss : bytes := [47;114;47;115;47;116].        (* "/r/s/t" *)
Example C07_borders_refuted_nested :
  in_charge P [Ps; Pss] (Pss ++ [47;121]) = false /\
  existsb (fun lh => in_range (fst lh) (snd lh) (RVer (Pss ++ [47;121]) 1 [])) (ranges_of P [Ps; Pss]) = true.
Proof. vm_compute. split; reflexivity. Qed.
Example C07_borders_refuted_duplicate :
  in_charge P [Ps; Ps] (Ps ++ [47;121]) = false /\
  existsb (fun lh => in_range (fst lh) (snd lh) (RVer (Ps ++ [47;121]) 1 [])) (ranges_of P [Ps; Ps]) = true.
Proof. vm_compute. split; reflexivity. Qed.
