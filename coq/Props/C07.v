(* C07 — Compaction never changes what a read at or above the compaction revision sees. *)
From KB Require Import Base.Cases Model.Coder Model.CompactSys Model.C07Cases.
Local Open Scope N_scope.
