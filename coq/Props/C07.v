(* C07 — Compaction never changes what a read at or above the compaction revision sees.
   Property theorems only: each is closed by `exact <lemma>` and followed by Print Assumptions. *)
From KB Require Import Base.Cases Model.Coder Model.CompactSys Model.C07Cases Model.C07Valid
  Proofs.Coder Proofs.CompactSafe Proofs.CompactReads Proofs.CompactWf Proofs.CompactPass Proofs.CompactRanges Proofs.CompactBorders Proofs.CompactRetry Proofs.CompactWriters Proofs.CompactOracle Proofs.CompactOracleW Proofs.CompactExpiry Proofs.CompactValid Proofs.CompactAudit.
From Coq Require Import Sorted.
Local Open Scope N_scope.

(* removing a version (k,r), r <= R, that has a newer version <= R in the current set - or a tombstone
   <= R once no older version is left, or an index record, or a record that is not there - does not
   change what any read at any revision R' >= R sees *)
Theorem C07_safe_remove : forall R V x, uniq_ver V -> premise R V x -> veq R (del_slot x V) V.
Proof. exact safe_remove. Qed.
Print Assumptions C07_safe_remove.

(* one compaction scan over a snapshot of whole keys (sorted, as the engine iterates), for EVERY
   assignment of outcomes to its engine deletes (Ok / compare failure / other failure / compactor
   dies, in any positions) and EVERY interleaving of writers' commits above R between two deletes:
   every delete issued satisfies C07_safe_remove's premise in the store of that moment (ds_safe is
   premiseb evaluated on the current store), and the store reads at every revision >= R exactly like
   the ghost store that received the writers' commits and none of the deletes.
   The outcome assignments include a compare failure (FailCond) on plain version deletes: compactKey records the
   key as failed whatever the error; only the index compare-and-delete goes on after a failed compare
   (Example C07_ex_cas_on_version_delete). *)
Theorem C07_pass : forall R V snap oc,
  scan_ok R V snap oc ->
  Forall (fun s => ds_safe s = true) (d_trace (scan R V snap oc)) /\
  veq R (d_store (scan R V snap oc)) (d_ghost (scan R V snap oc)) /\
  (forall k r v, In (RVer k r v) V -> In (RVer k r v) (d_ghost (scan R V snap oc))) /\
  (forall k r v, In (RVer k r v) (d_ghost (scan R V snap oc)) -> In (RVer k r v) V \/ In (RVer k r v) (flat_map fst oc)).
Proof. exact scan_safe. Qed.
Print Assumptions C07_pass.

(* without concurrent writers: the reads are those of the store before the pass *)
Theorem C07_pass_sequential : forall R V snap (os : list outcome),
  let oc := map (fun o => ([], o)) os in
  scan_ok R V snap oc -> veq R (d_store (scan R V snap oc)) V.
Proof. exact scan_safe_seq. Qed.
Print Assumptions C07_pass_sequential.

(* Backend.compact = one scan per border pair, each over the sorted records of its range with a fresh worker
   (no concurrent writers): for every store, every list of ranges, every R and every assignment of outcomes to
   the engine deletes, every delete is safe, reads at every revision >= R are unchanged, the relaxed
   well-formedness is kept, nothing appears, and every record that disappeared belongs to a key inside one of
   the ranges - nothing outside the compaction ranges is touched *)
Theorem C07_pass_all_ranges : forall R V ranges (os : list outcome),
  let d := compact_all R 0 ranges (init_d V (map (fun o => ([], o)) os)) in
  store_ok V -> uniq_ver V ->
  Forall (fun s => ds_safe s = true) (d_trace d) /\
  veq R (d_store d) V /\
  (forall y, In y (d_store d) -> In y V) /\
  (forall y, In y V -> In y (d_store d) \/ touched ranges (rkey y)) /\
  (wfd V -> wfd (d_store d)).
Proof. exact compact_all_safe. Qed.
Print Assumptions C07_pass_all_ranges.

(* the executable reads are functions of `visible`: Get (hence deleted keys do not reappear, live keys
   do not vanish) and List/Count over any key list agree on stores that read the same from R on *)
Theorem C07_get_spec : forall V R k r v, uniq_ver V -> (get_at V R k = Some (r, v) <-> visible V R k r v).
Proof. exact get_at_spec. Qed.
Print Assumptions C07_get_spec.

Theorem C07_get_unchanged : forall R A B R' k,
  uniq_ver A -> uniq_ver B -> veq R A B -> R <= R' -> get_at A R' k = get_at B R' k.
Proof. exact veq_get_at. Qed.
Print Assumptions C07_get_unchanged.

Theorem C07_list_unchanged : forall R A B R' ks,
  uniq_ver A -> uniq_ver B -> veq R A B -> R <= R' -> list_keys ks A R' = list_keys ks B R'.
Proof. exact veq_list_keys. Qed.
Print Assumptions C07_list_unchanged.

(* List and Count as specified by the snapshot semantics (sorted by key, exactly the visible keys of the range):
   the result is determined by the specification and is the same on stores that read the same from R on *)
Theorem C07_list_count_unchanged : forall R A B lo hi R' l1 l2,
  veq R A B -> R <= R' -> list_spec A lo hi R' l1 -> list_spec B lo hi R' l2 -> l1 = l2.
Proof. exact list_spec_unchanged. Qed.
Print Assumptions C07_list_count_unchanged.

Theorem C07_no_reappear_no_vanish : forall R A B R' k,
  uniq_ver A -> uniq_ver B -> veq R A B -> R <= R' -> (get_at A R' k = None <-> get_at B R' k = None).
Proof. exact veq_absent. Qed.
Print Assumptions C07_no_reappear_no_vanish.

(* C07_borders, for EVERY configuration (getCompactBorders normalises the skipped prefixes: "/" appended, a
   skipped prefix containing the whole prefix range means nothing to compact, one outside the range is ignored,
   of nested or duplicated ones the outermost is kept): the border pairs cover exactly the keys in charge -
   under prefix/, under no skipped prefix. With C07_pass_all_ranges: no record outside is deleted. *)
Theorem C07_borders : forall p sk k,
  alpha p -> Forall alpha sk -> alpha k ->
  existsb (fun lh => bleb (fst lh) k && bltb k (snd lh)) (ranges_of p sk) = in_charge p sk k.
Proof. exact borders_all. Qed.
Print Assumptions C07_borders.

(* the relaxed well-formedness ("one index per key; a live index names the newest version, which is not a
   tombstone; a flagged or a MISSING index sits above a version list that is empty or ends in a tombstone")
   survives the pass, whatever deletes fail and wherever it dies (no concurrent writers) *)
Theorem C07_wf_preserved : forall R V snap (os : list outcome),
  let oc := map (fun o => ([], o)) os in
  scan_ok R V snap oc -> wfd V -> wfd (d_store (scan R V snap oc)).
Proof. exact scan_wf. Qed.
Print Assumptions C07_wf_preserved.

(* each single safe removal keeps it (the step the pass is made of) *)
Theorem C07_wf_step : forall R V x,
  wfd V -> premise R V x -> (forall k r d, x = RIdx k r d -> d = true /\ In x V) -> wfd (del_slot x V).
Proof. exact wfd_del. Qed.
Print Assumptions C07_wf_step.

(* ... and under it every key stays writable with normal semantics: with a freshly dealt revision n,
   Create succeeds iff the key reads absent at the latest revision, Update iff its latest visible version
   carries the expected revision, Delete iff it is visible and the expected revision (0 = any) matches *)
Theorem C07_create_semantics : forall V k v n,
  wfd V -> fresh V n -> (snd (do_create V k v n) = WOk <-> get_at V max_rev k = None).
Proof. exact create_semantics. Qed.
Print Assumptions C07_create_semantics.

Theorem C07_update_semantics : forall V k v prev n,
  wfd V -> fresh V n -> prev <> 0 -> prev <= n ->
  (snd (do_update V k v prev n) = WOk <-> exists v0, get_at V max_rev k = Some (prev, v0)).
Proof. exact update_semantics. Qed.
Print Assumptions C07_update_semantics.

Theorem C07_delete_semantics : forall V k e n,
  wfd V -> fresh V n -> e <= n ->
  (snd (do_delete V k e n) = WOk <-> exists r v0, get_at V max_rev k = Some (r, v0) /\ (e = 0 \/ e = r)).
Proof. exact delete_semantics. Qed.
Print Assumptions C07_delete_semantics.

(* a successful (or refused) write request on a store satisfying the relaxed well-formedness, at a revision
   above everything stored, leaves a store satisfying it again, touches no other key, and answers what the
   specification expects from the key's latest read *)
Theorem C07_write_keeps_wf : forall V n op,
  wfd V -> fresh V n -> n + 1 <= max_rev -> op_ok n op ->
  let '(V', r) := model_wop V n op in
  wfd V' /\ fresh V' (n + 1) /\ (forall k0 R, k0 <> wop_key op -> get_at V' R k0 = get_at V R k0) /\
  r = wop_expected 0 op (get_at V max_rev (wop_key op)).
Proof. exact wop_step. Qed.
Print Assumptions C07_write_keeps_wf.

(* C07_pass for Backend.compact WITH concurrent writers: for every store whose records occupy distinct slots, every list of
   ranges, every assignment of outcomes to the engine deletes and every interleaving of writers' commits between two deletes
   (version records at fresh (key, revision) slots above R, one value per slot; index records replaced): every delete issued
   satisfies C07_safe_remove's premise in the store of that moment, and after all ranges the store reads at every revision
   >= R exactly like the ghost store that received the writers' commits and none of the deletes. (Every range starts from a
   store whose records still occupy distinct slots, so its snapshot is strictly sorted and C07_pass's invariant carries over
   from range to range.) *)
Theorem C07_pass_all_ranges_writers : forall R V ranges oc,
  let d := compact_all R 0 ranges (init_d V oc) in
  store_ok V -> fresh_adds (flat_map fst oc) V ->
  uniq_ver (V ++ flat_map fst oc) ->
  (forall k r v, In (RVer k r v) (flat_map fst oc) -> R < r) ->
  Forall (fun s => ds_safe s = true) (d_trace d) /\
  veq R (d_store d) (d_ghost d) /\
  store_ok (d_store d).
Proof. exact compact_all_writers. Qed.
Print Assumptions C07_pass_all_ranges_writers.

(* the ghost flag recorded with every engine delete (ds_safe) is C07_safe_remove's premise, evaluated: `ds_safe s = true` in
   C07_pass, C07_pass_all_ranges, C07_pass_all_ranges_writers and C07_pass_retry means that the delete satisfied the premise
   in the store of that moment (the converse, premiseb_of, needs one value per slot) *)
Theorem C07_premiseb_sound : forall R V x, premiseb R V x = true -> premise R V x.
Proof. exact premiseb_sound. Qed.
Print Assumptions C07_premiseb_sound.

(* ... and the ghost store those theorems compare with is pinned: it is the initial store with the writers' commits of the
   consumed entries of oc applied, in order - no commit is dropped from it, nothing else is in it *)
Theorem C07_pass_all_ranges_writers_ghost : forall R V ranges oc,
  let d := compact_all R 0 ranges (init_d V oc) in
  exists consumed, flat_map fst oc = consumed ++ flat_map fst (d_oc d) /\ d_ghost d = apply_env consumed V.
Proof. exact compact_all_ghost. Qed.
Print Assumptions C07_pass_all_ranges_writers_ghost.

(* the list specification of C07_list_count_unchanged is inhabited: on a strictly sorted store with one value per slot the
   model's List (what the correspondence run compares with Backend.List) satisfies it *)
Theorem C07_list_at_spec : forall V lo hi R,
  StronglySorted rlt V -> uniq_ver V -> list_spec V lo hi R (list_at V lo hi R).
Proof. exact list_at_spec. Qed.
Print Assumptions C07_list_at_spec.

(* ... and so List and Count (= the length of List) of the model read the same on any two such stores that read the same from R on *)
Theorem C07_list_at_unchanged : forall R A B lo hi R',
  StronglySorted rlt A -> uniq_ver A -> StronglySorted rlt B -> uniq_ver B -> veq R A B -> R <= R' ->
  list_at A lo hi R' = list_at B lo hi R' /\ length (list_at A lo hi R') = length (list_at B lo hi R').
Proof. exact list_at_unchanged. Qed.
Print Assumptions C07_list_at_unchanged.

(* C07_pass_retry: one iterator step (Next) of the scan fails and the worker runs again. The worker has handled the records
   before the failing step - the truncated run is a prefix of a full run, the invariant of C07_pass holds after every
   record - and the second run is a pass over what its range holds then. For every store, every ranges, every position n
   of the failing step, every outcome of the engine deletes (no concurrent writers): every delete issued by either run is
   safe, reads at every revision >= R are unchanged, nothing appears, nothing outside the ranges is touched, the relaxed
   well-formedness is kept *)
Theorem C07_pass_retry : forall R V ranges n (os : list outcome),
  let d := compact_all_f R ranges n (init_d V (map (fun o => ([], o)) os)) in
  store_ok V -> uniq_ver V ->
  Forall (fun s => ds_safe s = true) (d_trace d) /\
  veq R (d_store d) V /\
  (forall y, In y (d_store d) -> In y V) /\
  (forall y, In y V -> In y (d_store d) \/ touched ranges (rkey y)) /\
  (wfd V -> wfd (d_store d)).
Proof. exact compact_all_f_safe. Qed.
Print Assumptions C07_pass_retry.

(* ---------- the oracle is sound: on observations the model reproduces, it reports nothing ---------- *)

(* Cases whose variants have no writers interleaved (the fault / die / compare-failure placements, a failed iterator step
   with the worker's retry, engines reporting several partitions - whose workers together are one worker per range as
   long as no key is split, which is C13's theorem on adjustPartitionsBorders): if the
   model reproduces the observations (c07_check: borders, delete calls, dump after the pass, reads, write
   round) and the case is valid (c07_valid: alphabet, non-empty keys, revisions > 0, relaxed well-formedness
   of the dump before, the variants' reads at revisions >= R, round revisions above everything stored),
   then the property oracle evaluated on the observations reports no violation. The oracle's clauses
   (borders cover exactly the keys in charge, nothing outside touched, reads unchanged, the round answers
   what the reads predict) are therefore consequences of the model theorems, not independent judgements. *)
Theorem C07_oracle_sound : forall c, c07_valid c -> c07_check c = true -> c07_oracle c = None.
Proof. exact c07_oracle_sound_seq. Qed.
Print Assumptions C07_oracle_sound.

(* validity is decided and evaluated: c07_validb (Model/C07Valid.v: alphabet, non-empty keys, revisions > 0, the relaxed
   well-formedness decided on the dump, and for every variant without interleaved writers the read / round conditions)
   implies c07_valid of the case restricted to those variants ... *)
Theorem C07_validb_sound : forall c, c07_validb c = true -> c07_valid (c07_seq_part c).
Proof. exact c07_validb_spec. Qed.
Print Assumptions C07_validb_sound.

(* every variant, with or without interleaved writers. For a variant with writers the hypotheses (variant_valid_w) are: the
   writers' records are fresh (versions at (key, revision) slots nothing occupies, above R, one value per slot), the reads at
   revisions >= R, and the DUMP AFTER THE PASS satisfies the relaxed well-formedness with everything below the round's
   revisions - the model's writer commits are plain records; that they leave a well-formed store is what the write requests
   establish (C07_write_keeps_wf) and is decided on the dump. Then: nothing outside the backend's charge loses its slot, the
   reads equal those of the ghost store (C07_pass_all_ranges_writers), the round answers what the reads predict *)
Theorem C07_oracle_sound_full : forall c, c07_valid_full c -> c07_check c = true -> c07_oracle c = None.
Proof. exact c07_oracle_sound_full. Qed.
Print Assumptions C07_oracle_sound_full.

Theorem C07_validb_full_sound : forall c, c07_validb_full c = true -> c07_valid_full c.
Proof. exact c07_validb_full_spec. Qed.
Print Assumptions C07_validb_full_sound.

(* ... and what the shards evaluate on every generated case, c07_check_v = c07_validb_full && c07_check, puts the case under
   the theorem: nothing for the oracle to report, on any variant. A generated case that is not valid counts as a mismatch
   of the run *)
Theorem C07_oracle_sound_evaluated : forall c, c07_check_v c = true -> c07_oracle c = None.
Proof. exact c07_oracle_sound_v. Qed.
Print Assumptions C07_oracle_sound_evaluated.

(* per clause, for every variant - writers interleaved or not *)
Theorem C07_oracle_borders_clause : forall c,
  alpha (c7_prefix c) -> Forall alpha (c7_skipped c) -> (forall x, In x (c7_pre c) -> alpha (rkey x)) ->
  c07_check c = true -> borders_oracle (c7_prefix c) (c7_skipped c) (c7_borders c) (c7_pre c) = None.
Proof. exact c07_borders_clause. Qed.
Print Assumptions C07_oracle_borders_clause.

(* reads: G is the ghost store (dump before + the writers' commits, sorted), filter f G what the pass left *)
Theorem C07_oracle_reads_clause : forall R cur G f reads,
  StronglySorted rlt G -> uniq_ver G -> veq R (filter f G) G -> R <= max_rev ->
  Forall (rd_ok R cur) reads ->
  list_eqb rres_eqb7 (map (model_read G cur) reads) (map (model_read (filter f G) cur) reads) = true.
Proof. exact c07_reads_clause. Qed.
Print Assumptions C07_oracle_reads_clause.

Theorem C07_oracle_round_clause : forall post cur reads ops fin,
  wfd post -> fresh post (cur + 1) -> cur + 1 + N.of_nat (length ops) <= max_rev ->
  Forall (fun q => op_ok (cur + 1) (fst q)) ops ->
  model_round post (cur + 1) ops = Some fin ->
  round_ok cur reads (map (model_read post cur) reads) [] ops = true.
Proof. exact c07_round_clause. Qed.
Print Assumptions C07_oracle_round_clause.

(* ---------- non-vacuity and the hypotheses that are needed ---------- *)

Definition P : bytes := [47;114].                        (* "/r" *)
Definition Ps : bytes := [47;114;47;115].                (* "/r/s" *)
Definition Pss : bytes := [47;114;47;115;47;116].        (* "/r/s/t" *)
Definition ka : bytes := [97].
Definition kb : bytes := [98].
Definition exV : store :=
  [RIdx ka 103 true; RVer ka 101 [1]; RVer ka 102 [2]; RVer ka 103 tombstone;
   RIdx kb 105 false; RVer kb 104 [4]; RVer kb 105 [5]].
(* a writer re-creates ka at 106 just before the third delete, which then fails *)
Definition exOc : list (list rec * outcome) :=
  [([], OOk); ([], OOk); ([RIdx ka 106 false; RVer ka 106 [6]], OFailOther)].

Example C07_ex_scan_ok : scan_ok 105 exV exV exOc.
Proof.
  split.
  - split.
    + repeat (constructor; try (vm_compute; reflexivity)).
    + intros y Hy. cbn in Hy. repeat (destruct Hy as [<-|Hy]; [discriminate|]). destruct Hy.
    + intros k r v Hy. cbn in Hy. repeat (destruct Hy as [Hy|Hy]; [try discriminate; injection Hy as <- <- <-; lia|]). destruct Hy.
  - intros y Hy _. exact Hy.
  - intros k r v Hy _. exact Hy.
  - intros k r v v' H1 H2. cbn in H1, H2.
    repeat match goal with
           | H : _ \/ _ |- _ => destruct H as [H|H]
           | H : False |- _ => destruct H
           | H : RIdx _ _ _ = RVer _ _ _ |- _ => discriminate H
           end; congruence.
  - intros k r v Hy. cbn in Hy. repeat (destruct Hy as [Hy|Hy]; [try discriminate; injection Hy as <- <- <-; lia|]). destruct Hy.
Qed.

Ltac split_in :=
  repeat match goal with
         | H : In _ (_ :: _) |- _ => destruct H as [H|H]
         | H : In _ [] |- _ => destruct H
         | H : _ \/ _ |- _ => destruct H as [H|H]
         | H : False |- _ => destruct H
         | H : RIdx _ _ _ = RVer _ _ _ |- _ => discriminate H
         | H : RVer _ _ _ = RIdx _ _ _ |- _ => discriminate H
         end.

(* exV is well-formed (ka deleted: flagged index above value, value, tombstone; kb live) *)
Example C07_ex_wfd : wfd exV.
Proof.
  split; [|split].
  - intros k r d r' d' H1 H2. unfold exV, ka, kb in *. split_in; split; congruence.
  - intros k r v v' H1 H2. unfold exV, ka, kb in *. split_in; congruence.
  - intros k. unfold exV, ka, kb. split; [|split].
    + intros r H. split_in; try discriminate.
      injection H as <- <-. exists [5]. split; [split; [cbn; auto 10|]|discriminate].
      intros r' v' H'. split_in; try discriminate; injection H' as <- _; lia.
    + intros r H. split_in; try discriminate.
      injection H as <- <-. right. split; [cbn; auto 10|].
      intros r' v' H'. split_in; try discriminate; injection H' as <- _; lia.
    + intros Hn. left. intros r v H. split_in; injection H as <- _ _;
        first [solve [apply (Hn 103 true); cbn; auto 10]|solve [apply (Hn 105 false); cbn; auto 10]].
Qed.

(* a relaxed state reached by a pass that failed after removing the index: [value; tombstone] with no index;
   the key reads absent and Create succeeds *)
Example C07_ex_relaxed_state :
  let os := [OOk; OFailOther] in
  let V' := d_store (scan 105 exV exV (map (fun o => ([], o)) os)) in
  V' = [RVer ka 101 [1]; RVer ka 102 [2]; RVer ka 103 tombstone; RIdx kb 105 false; RVer kb 105 [5]] /\
  get_at V' max_rev ka = None /\ snd (do_create V' ka [9] 106) = WOk /\ snd (do_update V' ka [9] 102 106) = WFalse /\
  snd (do_delete V' ka 0 106) = WFalse /\ snd (do_delete V' kb 105 106) = WOk.
Proof. vm_compute. repeat split. Qed.

Example C07_ex_store_ok : store_ok exV.
Proof.
  split.
  - unfold exV, ka, kb. repeat (constructor; [cbn; intros H; split_in; discriminate|]). constructor.
  - intros a b Ha Hb. unfold exV in *. split_in; subst; vm_compute; intros H; try reflexivity; discriminate.
  - intros y Hy. unfold exV in Hy. split_in; subst; discriminate.
  - intros k r v Hy. unfold exV in Hy. split_in; try discriminate; injection Hy as _ <- _; lia.
Qed.

(* Backend.compact over the borders of prefix "/" + nothing skipped would be one range; here two ranges that
   split ka from kb, the second delete failing: ka keeps its versions, kb is compacted *)
Example C07_ex_all_ranges :
  let d := compact_all 105 0 [([97], [98]); ([98], [99])] (init_d exV (map (fun o => ([], o)) [OOk; OFailOther])) in
  d_store d = [RVer ka 101 [1]; RVer ka 102 [2]; RVer ka 103 tombstone; RIdx kb 105 false; RVer kb 105 [5]].
Proof. vm_compute. reflexivity. Qed.

Example C07_ex_fresh : fresh exV 106.
Proof.
  split; [vm_compute; discriminate|]. unfold exV. split; intros k r x H; split_in; try discriminate;
    first [injection H as _ <- _|injection H as _ <-]; lia.
Qed.

(* the run: index compare-and-delete, version 101, then the delete of 102 fails: 102 and the tombstone stay *)
Example C07_ex_run :
  map (fun s => (ds_kind s, ds_target s, ds_out s, ds_safe s)) (rev (d_trace (scan 105 exV exV exOc)))
  = [(KDelCur, RIdx ka 103 true, OOk, true); (KDel, RVer ka 101 [1], OOk, true); (KDel, RVer ka 102 [2], OFailOther, true);
     (KDel, RVer kb 104 [4], OOk, true)]
  /\ get_at (d_store (scan 105 exV exV exOc)) 105 ka = None
  /\ get_at (d_store (scan 105 exV exV exOc)) 106 ka = Some (106, [6]).
Proof. vm_compute. repeat split. Qed.

(* a plain version delete answered with a compare failure (the TiKV adapter reports a commit write conflict
   that way) marks the key like any other failure: the tombstone above the surviving version is not deleted and
   the key stays deleted (the former defect C07-F2, fixed); an index compare failure does not stop the pass *)
Example C07_ex_cas_on_version_delete :
  let os := [OOk; OOk; OFailCond] in
  let d := scan 105 exV exV (map (fun o => ([], o)) os) in
  get_at exV 105 ka = None /\ get_at (d_store d) 105 ka = None /\
  map (fun s => (ds_kind s, ds_target s, ds_out s)) (rev (d_trace d))
  = [(KDelCur, RIdx ka 103 true, OOk); (KDel, RVer ka 101 [1], OOk); (KDel, RVer ka 102 [2], OFailCond); (KDel, RVer kb 104 [4], OOk)] /\
  let d' := scan 105 exV exV (map (fun o => ([], o)) [OFailCond]) in
  map (fun s => (ds_kind s, ds_out s)) (rev (d_trace d'))
  = [(KDelCur, OFailCond); (KDel, OOk); (KDel, OOk); (KDel, OOk); (KDel, OOk)].
Proof. vm_compute. repeat split. Qed.

(* the tombstone clause of the premise is needed: removing the newest live version changes reads *)
Example C07_premise_needed :
  get_at (del_slot (RVer kb 105 [5]) exV) 105 kb <> get_at exV 105 kb.
Proof. vm_compute. discriminate. Qed.

(* the order of the deletes is load-bearing: deleting the tombstone before the value it shadows is not
   covered by the premise (an older version is left) and would resurrect the key if the next delete failed *)
Example C07_order_needed :
  premiseb 105 exV (RVer ka 103 tombstone) = false /\
  get_at (del_slot (RVer ka 103 tombstone) exV) 105 ka = Some (102, [2]).
Proof. vm_compute. split; reflexivity. Qed.

(* the ranges of some configurations. {/r/pods, /r/pods.archive, /r/s}: string order and key-range order differ *)
Example C07_ex_borders_dot :
  let sk := [[47;114;47;112;111;100;115]; [47;114;47;112;111;100;115;46;97]; Ps] in
  Forall alpha sk /\ alpha P /\
  ranges_of P sk = [([47;114;47], [47;114;47;112;111;100;115;46;97;47]); ([47;114;47;112;111;100;115;46;97;48], [47;114;47;112;111;100;115;47]);
                    ([47;114;47;112;111;100;115;48], [47;114;47;115;47]); ([47;114;47;115;48], [47;114;48])].
Proof. cbv zeta. split; [repeat constructor|]. split; [repeat constructor|vm_compute; reflexivity]. Qed.

(* the configurations that used to compact inside a skipped range (finding C07-F1, fixed): nested, duplicated,
   merely starting with the prefix string, containing the whole range - the records under them are out of every range *)
Example C07_ex_borders_nested :
  ranges_of P [Ps; Pss] = [(P ++ [47], Ps ++ [47]); (Ps ++ [48], P ++ [48])] /\
  ranges_of P [Pss; Ps] = [(P ++ [47], Ps ++ [47]); (Ps ++ [48], P ++ [48])] /\
  in_charge P [Ps; Pss] (Pss ++ [47;121]) = false /\
  existsb (fun lh => in_range (fst lh) (snd lh) (RVer (Pss ++ [47;121]) 1 [])) (ranges_of P [Ps; Pss]) = false.
Proof. vm_compute. repeat split. Qed.
Example C07_ex_borders_duplicate :
  ranges_of P [Ps; Ps] = [(P ++ [47], Ps ++ [47]); (Ps ++ [48], P ++ [48])] /\
  existsb (fun lh => in_range (fst lh) (snd lh) (RVer (Ps ++ [47;121]) 1 [])) (ranges_of P [Ps; Ps]) = false.
Proof. vm_compute. repeat split. Qed.
Example C07_ex_borders_out_of_range_and_covering :
  ranges_of P [P ++ [102;111;111]] = [(P ++ [47], P ++ [48])] /\          (* /rfoo: ignored *)
  ranges_of P [[47]] = [] /\ ranges_of P [P] = [].                          (* "/" and the prefix itself: nothing to compact *)
Proof. vm_compute. repeat split. Qed.

(* C07_oracle_sound's hypotheses are satisfiable: a case over prefix /r (ra deleted, rb live), one variant in
   which the third delete fails, reads at 0 / 105, a Create of the deleted key afterwards *)
Definition ra : bytes := [47;114;47;97].
Definition rb : bytes := [47;114;47;98].
Definition exW : store :=
  [RIdx ra 103 true; RVer ra 101 [1]; RVer ra 102 [2]; RVer ra 103 tombstone;
   RIdx rb 105 false; RVer rb 104 [4]; RVer rb 105 [5]].
Definition exReads : list c07_read := [RdGet ra 0; RdGet rb 105; RdList (P ++ [47]) (P ++ [48]) 0 0; RdList (P ++ [47]) (P ++ [48]) 105 1].
Definition exVariant : c07_variant :=
  mkV7 105 105 (map (fun o => ([], o)) [OOk; OOk; OFailOther]) 105 105 [KDelCur; KDel; KDel; KDel] None
       ([0; 1; 5], []) None [(WCreate ra [9], WOk); (WDelete rb 105, WOk)]
       ([2], [RIdx ra 106 false; RVer ra 106 [9]; RIdx rb 107 true; RVer rb 107 tombstone]) 0.
Definition exCase : c07_case :=
  mkC7 P [] (map (fun b => encode b 0) (compact_borders P [])) exW exReads (map (model_read exW max_rev) exReads) [exVariant].

Example C07_ex_oracle_sound_applies : c07_valid exCase /\ c07_check exCase = true /\ c07_oracle exCase = None.
Proof.
  assert (Hv : c07_valid exCase).
  { constructor; cbn [exCase c7_prefix c7_skipped c7_pre c7_reads c7_variants].
    - repeat constructor.
    - constructor.
    - intros x Hx. unfold exW, ra, rb in Hx. split_in; subst; (split; [repeat constructor|discriminate]).
    - intros k r v Hy. unfold exW in Hy. split_in; try discriminate; injection Hy as _ <- _; lia.
    - split; [|split].
      + intros k r d r' d' H1 H2. unfold exW, ra, rb in *. split_in; split; congruence.
      + intros k r v v' H1 H2. unfold exW, ra, rb in *. split_in; congruence.
      + intros k. unfold exW, ra, rb. split; [|split].
        * intros r H. split_in; try discriminate.
          injection H as <- <-. exists [5]. split; [split; [cbn; auto 10|]|discriminate].
          intros r' v' H'. split_in; try discriminate; injection H' as <- _; lia.
        * intros r H. split_in; try discriminate.
          injection H as <- <-. right. split; [cbn; auto 10|].
          intros r' v' H'. split_in; try discriminate; injection H' as <- _; lia.
        * intros Hn. left. intros r v H. split_in; injection H as <- _ _;
            first [solve [apply (Hn 103 true); cbn; auto 10]|solve [apply (Hn 105 false); cbn; auto 10]].
    - constructor; [|constructor]. constructor; cbn [exVariant v7_oc v7_cur v7_req v7_cur2 v7_round].
      + eexists. reflexivity.
      + vm_compute. discriminate.
      + change (clamp 105 0 105) with 105. unfold exReads.
        constructor; [left; reflexivity|]. constructor; [right; apply N.le_refl|].
        constructor; [vm_compute; discriminate|]. constructor; [vm_compute; discriminate|constructor].
      + split; [vm_compute; discriminate|]. unfold exW. split; intros k r x H; split_in; try discriminate;
          first [injection H as _ <- _|injection H as _ <-]; lia.
      + vm_compute. discriminate.
      + repeat constructor; cbn; try discriminate; lia. }
  assert (Hc : c07_check exCase = true) by (vm_compute; reflexivity).
  split; [exact Hv|]. split; [exact Hc|]. exact (c07_oracle_sound_seq exCase Hv Hc).
Qed.

(* C07_pass_retry on the example store: the step that would show ka's tombstone fails (the 4th), the worker has deleted the
   index and version 101; its second run finishes the key; the result is that of one pass, and the variant with the failed
   step satisfies C07_oracle_sound's hypotheses like any other *)
Example C07_ex_pass_retry :
  let d := compact_all_f 105 [([97], [99])] 4 (init_d exV []) in
  map (fun s => (ds_kind s, ds_target s)) (rev (d_trace d)) =
    [(KDelCur, RIdx ka 103 true); (KDel, RVer ka 101 [1]); (KDel, RVer ka 102 [2]); (KDel, RVer ka 103 tombstone); (KDel, RVer kb 104 [4])] /\
  d_store d = d_store (compact_all 105 0 [([97], [99])] (init_d exV [])) /\
  variant_valid P [] exW exReads (mkV7 105 105 [] 105 105 [] None ([], []) None [] ([], []) 3).
Proof.
  cbv zeta. split; [vm_compute; reflexivity|]. split; [vm_compute; reflexivity|].
  constructor; cbn [v7_oc v7_cur v7_req v7_cur2 v7_round].
  - exists []. reflexivity.
  - vm_compute. discriminate.
  - change (clamp 105 0 105) with 105. unfold exReads.
    constructor; [left; reflexivity|]. constructor; [right; apply N.le_refl|].
    constructor; [vm_compute; discriminate|]. constructor; [vm_compute; discriminate|constructor].
  - split; [vm_compute; discriminate|]. unfold exW. split; intros k r x H; split_in; try discriminate;
      first [injection H as _ <- _|injection H as _ <-]; lia.
  - vm_compute. discriminate.
  - constructor.
Qed.

Example C07_ex_validb : c07_validb exCase = true /\ c07_check_v exCase = true /\ c07_seq_part exCase = exCase.
Proof. vm_compute. repeat split. Qed.

(* C07_pass_all_ranges_writers on the example: ka is re-created at 106 just before the third delete, two ranges *)
Example C07_ex_writers_hyps :
  fresh_adds (flat_map fst exOc) exV /\ uniq_ver (exV ++ flat_map fst exOc) /\
  (forall k r v, In (RVer k r v) (flat_map fst exOc) -> 105 < r) /\
  let d := compact_all 105 0 [([97], [98]); ([98], [99])] (init_d exV exOc) in
  get_at (d_store d) 106 ka = Some (106, [6]) /\ get_at (d_store d) 105 ka = None /\ get_at (d_store d) 105 kb = Some (105, [5]).
Proof.
  split; [|split; [|split]].
  - cbn [exOc flat_map fst app fresh_adds env1]. unfold ka. repeat split; try discriminate; try lia.
    intros v' H. apply in_app_iff in H as [H|[H|[]]]; [|discriminate].
    apply filter_In in H as [H _]. unfold exV, ka, kb in H. split_in; discriminate.
  - apply C07_ex_scan_ok.
  - apply C07_ex_scan_ok.
  - vm_compute. repeat split.
Qed.

(* a variant with a writer: ra re-created at 106 just before the pass's third delete (which fails), on exW *)
Definition exVariantW : c07_variant :=
  mkV7 105 105 [([], OOk); ([], OOk); ([RIdx ra 106 false; RVer ra 106 [6]], OFailOther)] 105 106 [KDelCur; KDel; KDel; KDel]
       (Some (map (model_read (sort_by rec_ltb (apply_env [RIdx ra 106 false; RVer ra 106 [6]] exW)) 106) exReads))
       ([0; 1; 5], [RIdx ra 106 false; RVer ra 106 [6]]) None [(WDelete rb 105, WOk)]
       ([4], [RIdx rb 107 true; RVer rb 107 tombstone]) 0.
Example C07_ex_writer_variant :
  let c := mkC7 P [] (map (fun b => encode b 0) (compact_borders P [])) exW exReads (map (model_read exW max_rev) exReads) [exVariant; exVariantW] in
  c07_validb_full c = true /\ c07_check_v c = true /\ c07_oracle c = None /\ seqb exVariantW = false.
Proof. vm_compute. repeat split. Qed.

(* hypotheses asked for by the audit *)
Example C07_ex_premise_holds : premise 105 exV (RVer ka 101 [1]).
Proof. apply C07_premiseb_sound. vm_compute. reflexivity. Qed.
Example C07_ex_list_spec : list_spec exV [97] [99] 105 (list_at exV [97] [99] 105) /\ list_at exV [97] [99] 105 = [(kb, [5], 105)].
Proof.
  split; [|vm_compute; reflexivity]. apply C07_list_at_spec.
  - repeat (constructor; [|repeat (constructor; try (vm_compute; reflexivity))]). constructor.
  - apply C07_ex_wfd.
Qed.
Example C07_ex_writers_ghost :
  let d := compact_all 105 0 [([97], [98]); ([98], [99])] (init_d exV exOc) in
  d_oc d = [] /\ d_ghost d = apply_env (flat_map fst exOc) exV.
Proof. vm_compute. split; reflexivity. Qed.

(* more hypotheses inhabited: a sequential scan_ok; the premise and the index condition of C07_wf_step; the round clause on exV *)
Example C07_ex_scan_ok_seq : scan_ok 105 exV exV (map (fun o => ([], o)) [OOk; OFailOther]).
Proof.
  split.
  - apply C07_ex_scan_ok.
  - intros y Hy _. exact Hy.
  - intros k r v Hy _. exact Hy.
  - cbn [map flat_map fst app]. rewrite app_nil_r. apply C07_ex_wfd.
  - intros k r v Hy. destruct Hy.
Qed.
Example C07_ex_wf_step_hyps :
  premise 105 exV (RIdx ka 103 true) /\ (forall k r d, RIdx ka 103 true = RIdx k r d -> d = true /\ In (RIdx ka 103 true) exV) /\
  wfd (del_slot (RIdx ka 103 true) exV).
Proof.
  split; [exact I|]. split.
  - intros k r d E. injection E as <- <- <-. split; [reflexivity|left; reflexivity].
  - apply (C07_wf_step 105); [apply C07_ex_wfd|exact I|]. intros k r d E. injection E as <- <- <-. split; [reflexivity|left; reflexivity].
Qed.
Example C07_ex_round_clause :
  let ops := [(WCreate ka [9], WOk); (WDelete kb 105, WOk)] in
  model_round exV 106 ops <> None /\
  round_ok 105 [RdGet ka 0; RdGet kb 0] (map (model_read exV 105) [RdGet ka 0; RdGet kb 0]) [] ops = true.
Proof. vm_compute. split; [discriminate|reflexivity]. Qed.
