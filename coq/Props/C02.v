(* C02 — Revisions are unique, real-time ordered, monotone per key, and bound the header.
   Property theorems only: each is closed by `exact <lemma>` and followed by Print Assumptions.

   reach cidx0 d0 store s  :=  wf_store d0 store /\ exists ls, s = krun cidx0 ls (kinit d0 store)
   (state after an arbitrary label list — any interleaving of any number of clients — from any
   well-formed store). The ghost log is newest first. *)
From KB Require Import Model.RevSys Model.KeySys Model.C01Cases Model.C02Cases.
From KB Require Import Proofs.RevSys Proofs.KeySys Proofs.KeySysLog Proofs.KeySysChain Proofs.KeySysProps Proofs.C02Cases Proofs.SchedCases.
Local Open Scope N_scope.

(* RevSys: no two allocations ever return the same revision, whatever the threads and the sequencer do *)
Theorem C02_rev_unique : forall ls d0, NoDup (dealt_revs (rrun ls (rinit d0))).
Proof. exact dealt_unique. Qed.
Print Assumptions C02_rev_unique.

(* the allocator with Commit(rev) called by any number of threads with ANY revisions (leader hand-over,
   follower sync: rev ahead of the counter), each Commit = store, load, compare-and-swap, interleaved
   with Deal in any way: the dealt revisions strictly increase in the order of the Deal actions … *)
Theorem C02_tso_increasing : forall ls d0,
  sdecr (t_dealt (trun false ls (tinit d0)) + 1) (map snd (t_log (trun false ls (tinit d0)))).
Proof. exact tso_dealt_increasing. Qed.
Print Assumptions C02_tso_increasing.
Theorem C02_tso_unique : forall ls d0, NoDup (map snd (t_log (trun false ls (tinit d0)))).
Proof. exact tso_dealt_unique. Qed.
Print Assumptions C02_tso_unique.
(* … and the compare-and-swap is what makes it so: with a plain store the same schedule deals 13 twice *)
Example C02_tso_plain_store_refuted :
  map snd (t_log (trun true tso_plain_witness (tinit 10))) = [13; 13; 12; 11]
  /\ map snd (t_log (trun false tso_plain_witness (tinit 10))) = [14; 13; 12; 11].
Proof. exact tso_plain_store_refuted. Qed.

(* KeySys: the revisions stamped on write attempts (EDealt entries, incl. the asynchronous rewrite's) are pairwise distinct *)
Theorem C02_unique : forall cidx0 d0 store s, reach cidx0 d0 store s -> NoDup (dealt_log (log s)).
Proof. exact k_unique. Qed.
Print Assumptions C02_unique.

(* if request 1 returned before request 2 was invoked, every revision of 1 is below every revision of 2
   (log, newest first:  … EDealt t2 r2 … EInvoke t2 … EReturn t1 … EDealt t1 r1 …) *)
Theorem C02_realtime : forall cidx0 d0 store s, reach cidx0 d0 store s ->
  forall l4 t2 r2 l3 q2 l2 t1 resp1 l1 r1 l0,
    log s = l4 ++ EDealt t2 r2 :: l3 ++ EInvoke t2 q2 :: l2 ++ EReturn t1 resp1 :: l1 ++ EDealt t1 r1 :: l0 ->
    r1 < r2.
Proof. exact k_realtime. Qed.
Print Assumptions C02_realtime.

(* write responses: the header revision is at least the mod revision of the kv in the response *)
Theorem C02_header_bound : forall cidx0 d0 store s, reach cidx0 d0 store s -> returns_bounded (log s).
Proof. exact k_header_bound. Qed.
Print Assumptions C02_header_bound.

Theorem C02_header_bound_get : forall s k rev, rd_bound (read_get s k rev) = true.
Proof. exact read_get_bound. Qed.
Print Assumptions C02_header_bound_get.

(* List: the full statement fails on the faithful model (and on the code: finding C02-F1) … *)
Definition C02_header_bound_list_full_statement : Prop :=
  forall cidx0 d0 store ls keys rev, wf_store d0 store ->
    rd_bound (read_list (krun cidx0 ls (kinit d0 store)) keys rev) = true.

Theorem C02_header_bound_list_refuted :
  exists cidx0 d0 store ls keys rev,
    wf_store d0 store /\ rd_bound (read_list (krun cidx0 ls (kinit d0 store)) keys rev) = false.
Proof. exact read_list_refuted. Qed.
Print Assumptions C02_header_bound_list_refuted.

(* … and holds whenever the request does not name a revision above the one the node has reached *)
Theorem C02_header_bound_list_except_future_revision : forall s keys rev,
  rev = 0 \/ rev <= committed (rs s) -> rd_bound (read_list s keys rev) = true.
Proof. exact read_list_bound. Qed.
Print Assumptions C02_header_bound_list_except_future_revision.

(* along one key's history the modification revisions strictly increase: every applied commit is above
   every version its key had (link_ok), for every key and every reachable log *)
Theorem C02_key_monotone : forall cidx0 d0 store s, reach cidx0 d0 store s -> chain store (log s).
Proof. exact k_key_monotone. Qed.
Print Assumptions C02_key_monotone.

(* the read-case oracle: agreement with the model leaves it at None or at the finding's code 1, and code 1
   only on the finding's signature *)
Theorem C02_read_oracle_sound_partial : forall c, read_check c = true -> read_oracle c = None \/ read_oracle c = Some 1.
Proof. exact read_oracle_sound. Qed.
Print Assumptions C02_read_oracle_sound_partial.
Theorem C02_read_oracle_f1_signature : forall c, read_oracle c = Some 1 ->
  exists rev h kvs, In (RdList rev, RdOk h kvs) (rc_reads c) /\ h < rev /\ rd_bound (RdOk h kvs) = false.
Proof. exact read_oracle_f1_signature. Qed.
Print Assumptions C02_read_oracle_f1_signature.

(* the oracle lemma for schedule cases. Full statement (not proved, see "gaps"): *)
Definition C02_sched_oracle_sound_full_statement : Prop :=
  forall c, sched_valid c -> sched_check c = true -> rev_ok c = true.
(* proved clause: header >= kv revision inside every single response of every request record *)
Theorem C02_sched_oracle_header_sound_partial : forall c, sched_valid c -> sched_check c = true ->
  forallb (fun r => header_ok (rr_resp r)) (case_records c) = true.
Proof. exact sched_headers_sound. Qed.
Print Assumptions C02_sched_oracle_header_sound_partial.

(* ----- non-vacuity ----- *)
Example C02_ex_reach : reach true 10 ex_store ex_state.
Proof. exact ex_reach. Qed.
Example C02_ex_log : dealt_log (log ex_state) = [13; 12; 11]
  /\ exists l4 l3 l2 l1 l0, log ex_state =
       l4 ++ EDealt 2 13 :: l3 ++ EInvoke 2 (RqCreate 1 [8]) :: l2 ++ ENotified 0 12 true :: l1 ++ EDealt 0 12 :: l0.
Proof.
  split; [vm_compute; reflexivity|].
  exists [EReturn 0 (RespUpdate 12 true None); ENotified 1 11 false], [], [], [EApplied 0 (Some (RqUpdate 0 [9] 5)) 0 AUpdate 12 false [9] (Some (5, false))],
         [EInvoke 0 (RqUpdate 0 [9] 5); EDealt 1 11; EInvoke 1 (RqDelete 0 0)].
  vm_compute. reflexivity.
Qed.
(* the hypothesis of C02_realtime on a concrete history: thread 0's create returns, then thread 1 is invoked and dealt *)
Example C02_ex_realtime :
  let s := krun true [LInvoke 0 (RqCreate 2 [1]); LDeal 0; LEngine 0 EnvOk; LNotify 0; LReturn 0;
                      LInvoke 1 (RqCreate 2 [2]); LDeal 1] (kinit 10 ex_store) in
  log s = [] ++ EDealt 1 12 :: [] ++ EInvoke 1 (RqCreate 2 [2]) :: [] ++ EReturn 0 (RespCreate 11 true)
          :: [ENotified 0 11 true; EApplied 0 (Some (RqCreate 2 [1])) 2 ACreate 11 false [1] None] ++ EDealt 0 11 :: [EInvoke 0 (RqCreate 2 [1])].
Proof. vm_compute. reflexivity. Qed.
(* a failure-path response whose header is the max of the allocated and the latest mod revision *)
Example C02_ex_header : thr ex_state 1 = PReturn (RespDelete 12 false (Some ([9], 12))) /\ dealt_log (log ex_state) = [13; 12; 11].
Proof. vm_compute. split; reflexivity. Qed.
