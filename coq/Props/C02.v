(* C02 — Revisions are unique, real-time ordered, monotone per key, and bound the header.
   Property theorems only: each is closed by `exact <lemma>` and followed by Print Assumptions.

   reach cidx0 d0 store s  :=  wf_store d0 store /\ exists ls, s = krun cidx0 ls (kinit d0 store)
   (state after an arbitrary label list — any interleaving of any number of clients — from any
   well-formed store). The ghost log is newest first. *)
From KB Require Import Model.RevSys Model.KeySys Model.C01Cases Model.C02Cases.
From KB Require Import Proofs.RevSys Proofs.KeySys Proofs.KeySysLog Proofs.KeySysChain Proofs.KeySysProps Proofs.C02Cases Proofs.KeySysUniq Proofs.SchedCases Proofs.SchedLink Proofs.KeySysHdr Proofs.TsoImage Proofs.SchedRt.
Local Open Scope N_scope.

(* RevSys: no two allocations ever return the same revision, whatever the threads and the sequencer do *)
Theorem C02_rev_unique : forall ls d0, NoDup (dealt_revs (rrun ls (rinit d0))).
Proof. exact dealt_unique. Qed.
Print Assumptions C02_rev_unique.

(* the allocator with Commit(rev) called by any number of threads with ANY revisions (leader hand-over,
   follower sync: rev ahead of the counter), each Commit = store, load, compare-and-swap, interleaved
   with Deal in any way: the dealt revisions strictly increase in the order of the Deal actions … *)
Theorem C02_tso_increasing : forall ls d0,
  sdecr (t_dealt (trun false ls (tinit d0)) + 1) (map snd (t_log (trun false ls (tinit d0)))).
Proof. exact tso_dealt_increasing. Qed.
Print Assumptions C02_tso_increasing.
Theorem C02_tso_unique : forall ls d0, NoDup (map snd (t_log (trun false ls (tinit d0)))).
Proof. exact tso_dealt_unique. Qed.
Print Assumptions C02_tso_unique.
(* the read revision never moves backwards, whoever calls Commit with whatever revision (raise-only loop, repo 1eb892a) *)
Theorem C02_tso_committed_monotone : forall plain ls s, t_committed s <= t_committed (trun plain ls s).
Proof. exact t_committed_mono. Qed.
Print Assumptions C02_tso_committed_monotone.
Example C02_tso_commit_stale_revision :
  t_committed (trun false [TCommit 1 20; TLoadC 1; TCasC 1; TCommit 2 15; TLoadC 2; TCasC 2; TLoad 2; TCas 2] (tinit 10)) = 20.
Proof. vm_compute. reflexivity. Qed.
(* … and the compare-and-swap is what makes it so: with a plain store the same schedule deals 13 twice *)
Example C02_tso_plain_store_refuted :
  map snd (t_log (trun true tso_plain_witness (tinit 10))) = [13; 13; 12; 11]
  /\ map snd (t_log (trun false tso_plain_witness (tinit 10))) = [14; 13; 12; 11].
Proof. exact tso_plain_store_refuted. Qed.

(* the model statement behind case kind C2Tso (tso stress: one list of dealt revisions per goroutine): for every run
   of the allocator and any distinct goroutines, the per-goroutine projections of the Deal log satisfy tso_ok (each
   strictly increasing, all pairwise distinct). The case kind's check (tso_check = each list increasing) is what
   every interleaving allows per goroutine, it is not a model run: C2Tso is judged by its oracle only (see gaps) *)
Theorem C02_tso_model_ok : forall ls d0 ts, NoDup ts ->
  tso_ok (per_thread ts (t_log (trun false ls (tinit d0)))) = true.
Proof. exact tso_model_ok. Qed.
Print Assumptions C02_tso_model_ok.
Example C02_tso_model_ex :
  per_thread [0; 1] (t_log (trun false tso_plain_witness (tinit 10))) = [[11; 13]; [12; 14]].
Proof. exact tso_model_ex. Qed.

(* KeySys: the revisions stamped on write attempts (EDealt entries, incl. the asynchronous rewrite's) are pairwise distinct *)
Theorem C02_unique : forall cidx0 d0 store s, reach cidx0 d0 store s -> NoDup (dealt_log (log s)).
Proof. exact k_unique. Qed.
Print Assumptions C02_unique.

(* if request 1 returned before request 2 was invoked, every revision of 1 is below every revision of 2
   (log, newest first:  … EDealt t2 r2 … EInvoke t2 … EReturn t1 … EDealt t1 r1 …) *)
Theorem C02_realtime : forall cidx0 d0 store s, reach cidx0 d0 store s ->
  forall l4 t2 r2 l3 q2 l2 t1 resp1 l1 r1 l0,
    log s = l4 ++ EDealt t2 r2 :: l3 ++ EInvoke t2 q2 :: l2 ++ EReturn t1 resp1 :: l1 ++ EDealt t1 r1 :: l0 ->
    r1 < r2.
Proof. exact k_realtime. Qed.
Print Assumptions C02_realtime.

(* real-time order on what the requests REPORT: if request 1 was answered before request 2 was invoked, the header
   of 1's answer is below the header of 2's answer (failure paths included: there the header is
   max(own revision, latest mod revision of the key)) *)
Theorem C02_realtime_headers : forall cidx0 d0 store s, reach cidx0 d0 store s ->
  forall l3 t2 r2 l2' q2 l2 t1 r1 l0 h1 h2,
    log s = l3 ++ EReturn t2 r2 :: l2' ++ EInvoke t2 q2 :: l2 ++ EReturn t1 r1 :: l0 ->
    resp_hdr r1 = Some h1 -> resp_hdr r2 = Some h2 -> h1 < h2.
Proof. exact hdr_realtime. Qed.
Print Assumptions C02_realtime_headers.
(* behind it: the header of an answer is at least a revision the request was stamped with (cur_dealt t log: the
   revisions dealt to t since its EInvoke) and at most the allocation counter *)
Theorem C02_header_own_revision : forall cidx0 d0 store s, reach cidx0 d0 store s ->
  forall t r h, thr s t = PReturn r -> resp_hdr r = Some h ->
    (exists x, In x (cur_dealt t (log s)) /\ x <= h) /\ h <= dealt (rs s).
Proof. exact hdr_bounds. Qed.
Print Assumptions C02_header_own_revision.

(* reads are functions of the state, not labels. Read then write: a request invoked after state s reports a header
   above the header of every Get served in s *)
Theorem C02_realtime_read_then_write : forall cidx0 d0 store s, reach cidx0 d0 store s ->
  forall ls' l3 t2 r2 l2' q2 l2 h2,
    log (krun cidx0 ls' s) = l3 ++ EReturn t2 r2 :: l2' ++ EInvoke t2 q2 :: l2 ++ log s ->
    resp_hdr r2 = Some h2 ->
    forall k rev, rd_hdr (read_get s k rev) < h2.
Proof. exact read_then_write. Qed.
Print Assumptions C02_realtime_read_then_write.
(* Write then read: the full statement "a Get issued after a write's answer reports at least the write's header" … *)
Definition C02_realtime_write_then_read_full_statement : Prop := write_then_read_full.
(* … is refuted on the faithful model: the write's revision is not readable while an earlier revision is unresolved,
   and a Get of another key then reports the (lower) revision reads are served at *)
Theorem C02_realtime_write_then_read_refuted : ~ write_then_read_full.
Proof. exact write_then_read_refuted. Qed.
Print Assumptions C02_realtime_write_then_read_refuted.
Example C02_write_then_read_witness :
  let s := krun true wr_labels (kinit 10 ex_store) in
  thr s 0 = PReturn (RespUpdate 12 true None) /\ committed (rs s) = 10 /\ pc_rev (thr s 1) = Some 11 /\
  read_get (kstep true s (LReturn 0)) 1 0 = RdOk 10 [] /\ enabled s LSeqTake = false.
Proof. exact write_then_read_witness. Qed.
(* the true statement: a read reports at least the revision reads are served at (by construction of read_get), so at
   least the write's header once that revision is readable (when that happens: C04) *)
Theorem C02_realtime_write_then_read_when_readable : forall s h k rev,
  h <= committed (rs s) -> h <= rd_hdr (read_get s k rev).
Proof. exact write_then_read_caught_up. Qed.
Print Assumptions C02_realtime_write_then_read_when_readable.

(* write responses: the header revision is at least the mod revision of the kv in the response *)
Theorem C02_header_bound : forall cidx0 d0 store s, reach cidx0 d0 store s -> returns_bounded (log s).
Proof. exact k_header_bound. Qed.
Print Assumptions C02_header_bound.

Theorem C02_header_bound_get : forall s k rev, rd_bound (read_get s k rev) = true.
Proof. exact read_get_bound. Qed.
Print Assumptions C02_header_bound_get.

(* List: the full statement fails on the faithful model (and on the code: finding C02-F1) … *)
Definition C02_header_bound_list_full_statement : Prop :=
  forall cidx0 d0 store ls keys rev, wf_store d0 store ->
    rd_bound (read_list (krun cidx0 ls (kinit d0 store)) keys rev) = true.

Theorem C02_header_bound_list_refuted :
  exists cidx0 d0 store ls keys rev,
    wf_store d0 store /\ rd_bound (read_list (krun cidx0 ls (kinit d0 store)) keys rev) = false.
Proof. exact read_list_refuted. Qed.
Print Assumptions C02_header_bound_list_refuted.

(* … and holds whenever the request does not name a revision above the one the node has reached *)
Theorem C02_header_bound_list_except_future_revision : forall s keys rev,
  rev = 0 \/ rev <= committed (rs s) -> rd_bound (read_list s keys rev) = true.
Proof. exact read_list_bound. Qed.
Print Assumptions C02_header_bound_list_except_future_revision.

(* along one key's history the modification revisions strictly increase: every applied commit is above
   every version its key had (link_ok), for every key and every reachable log *)
Theorem C02_key_monotone : forall cidx0 d0 store s, reach cidx0 d0 store s -> chain store (log s).
Proof. exact k_key_monotone. Qed.
Print Assumptions C02_key_monotone.

(* the read-case oracle: agreement with the model leaves it at None or at the finding's code 1, and code 1
   only on the finding's signature *)
Theorem C02_read_oracle_sound : forall c, read_check c = true -> read_oracle c = None \/ read_oracle c = Some 1.
Proof. exact read_oracle_sound. Qed.
Print Assumptions C02_read_oracle_sound.
Theorem C02_read_oracle_f1_signature : forall c, read_oracle c = Some 1 ->
  exists rev h kvs, In (RdList rev, RdOk h kvs) (rc_reads c) /\ h < rev /\ rd_bound (RdOk h kvs) = false.
Proof. exact read_oracle_f1_signature. Qed.
Print Assumptions C02_read_oracle_f1_signature.

(* the oracle lemma for schedule cases. Full statement (not proved, see "gaps"): *)
Definition C02_sched_oracle_sound_full_statement : Prop :=
  forall c, sched_check c = true -> rev_ok c = true.
(* proved clause: header >= kv revision inside every single response of every request record *)
Theorem C02_sched_oracle_header_sound_partial : forall c, sched_check c = true ->
  forallb (fun r => header_ok (rr_resp r)) (case_records c) = true.
Proof. exact sched_headers_sound_checked. Qed.
Print Assumptions C02_sched_oracle_header_sound_partial.
(* proved clauses: the revisions read off the answers (successes, failed creates, deletes of absent keys) are
   pairwise distinct and lie between the initial revision and the marker *)
Theorem C02_sched_oracle_unique_sound_partial : forall c, sched_check c = true ->
  nodupb (exact_revs (case_records c)) = true /\
  forallb (fun x => (sc_d0 c <? x) && (x <? sc_marker c)) (exact_revs (case_records c)) = true.
Proof. exact sched_unique_sound_checked. Qed.
Print Assumptions C02_sched_oracle_unique_sound_partial.
(* the same on the model's log, for every label list: the revisions of the answered requests are pairwise distinct *)
Theorem C02_answered_revisions_unique : forall cidx0 ls d0 store, wf_store d0 store ->
  let s := krun cidx0 ls (kinit d0 store) in
  NoDup (ret_revs (log s)) /\ forall x, In x (ret_revs (log s)) -> d0 < x <= dealt (rs s).
Proof. exact ret_revs_unique. Qed.
Print Assumptions C02_answered_revisions_unique.

(* proved clause realtime_ok: if record a was answered before record b was invoked (by step numbers; in the same step
   for one thread), the revision read off a's answer is below the header of b's answer. The proof couples the
   oracle's walk with the model run (Proofs/SchedRt.v): the header of an answer is at least a revision of the
   request's own window, and every revision of a window is above every revision answered before the window opened *)
Theorem C02_sched_oracle_realtime_sound_partial : forall c, sched_check c = true ->
  realtime_ok (case_records c) = true.
Proof. exact sched_realtime_sound_checked. Qed.
Print Assumptions C02_sched_oracle_realtime_sound_partial.

(* proved clause records_complete: every request of the case got exactly one record *)
Theorem C02_sched_oracle_records_complete_sound_partial : forall c, sched_check c = true ->
  records_complete c (case_records c) = true.
Proof. exact sched_records_complete_sound_checked. Qed.
Print Assumptions C02_sched_oracle_records_complete_sound_partial.

(* ----- non-vacuity ----- *)
Example C02_ex_reach : reach true 10 ex_store ex_state.
Proof. exact ex_reach. Qed.
Example C02_ex_log : dealt_log (log ex_state) = [13; 12; 11]
  /\ exists l4 l3 l2 l1 l0, log ex_state =
       l4 ++ EDealt 2 13 :: l3 ++ EInvoke 2 (RqCreate 1 [8]) :: l2 ++ ENotified 0 12 true :: l1 ++ EDealt 0 12 :: l0.
Proof.
  split; [vm_compute; reflexivity|].
  exists [EReturn 0 (RespUpdate 12 true None); ENotified 1 11 false], [], [], [EApplied 0 (Some (RqUpdate 0 [9] 5)) 0 AUpdate 12 false [9] (Some (5, false))],
         [EInvoke 0 (RqUpdate 0 [9] 5); EDealt 1 11; EInvoke 1 (RqDelete 0 0)].
  vm_compute. reflexivity.
Qed.
(* the hypothesis of C02_realtime on a concrete history: thread 0's create returns, then thread 1 is invoked and dealt *)
Example C02_ex_realtime :
  let s := krun true [LInvoke 0 (RqCreate 2 [1]); LDeal 0; LEngine 0 EnvOk; LNotify 0; LReturn 0;
                      LInvoke 1 (RqCreate 2 [2]); LDeal 1] (kinit 10 ex_store) in
  log s = [] ++ EDealt 1 12 :: [] ++ EInvoke 1 (RqCreate 2 [2]) :: [] ++ EReturn 0 (RespCreate 11 true)
          :: [ENotified 0 11 true; EApplied 0 (Some (RqCreate 2 [1])) 2 ACreate 11 false [1] None] ++ EDealt 0 11 :: [EInvoke 0 (RqCreate 2 [1])].
Proof. vm_compute. reflexivity. Qed.
(* a failure-path response whose header is the max of the allocated and the latest mod revision *)
Example C02_ex_header : thr ex_state 1 = PReturn (RespDelete 12 false (Some ([9], 12))) /\ dealt_log (log ex_state) = [13; 12; 11].
Proof. vm_compute. split; reflexivity. Qed.
(* C02_realtime_headers on a concrete history: thread 0's create is answered (header 11), then thread 1's create of
   the same key is invoked, refused and answered with header 12 *)
Example C02_ex_realtime_headers :
  let s := krun true [LInvoke 0 (RqCreate 2 [1]); LDeal 0; LEngine 0 EnvOk; LNotify 0; LReturn 0;
                      LInvoke 1 (RqCreate 2 [2]); LDeal 1; LEngine 1 EnvOk; LNotify 1; LReturn 1] (kinit 10 ex_store) in
  log s = [] ++ EReturn 1 (RespCreate 12 false) :: [ENotified 1 12 false; EDealt 1 12] ++ EInvoke 1 (RqCreate 2 [2]) :: []
          ++ EReturn 0 (RespCreate 11 true)
          :: [ENotified 0 11 true; EApplied 0 (Some (RqCreate 2 [1])) 2 ACreate 11 false [1] None; EDealt 0 11; EInvoke 0 (RqCreate 2 [1])].
Proof. vm_compute. reflexivity. Qed.
(* a non-empty List answer within the bound *)
Example C02_ex_list : read_list ex_state [0; 1] 0 = RdOk 12 [(0, [9], 12)]
  /\ rd_bound (read_list ex_state [0; 1] 0) = true.
Proof. vm_compute. split; reflexivity. Qed.
(* a read case the model reproduces and the oracle classifies as the finding's signature (code 1) *)
Example C02_ex_read_f1 :
  let c := {| rc_cidx0 := true; rc_d0 := 10; rc_keys := [0];
              rc_init := [(0, {| k_idx := Some (5, false); k_vers := [(5, [1]); (3, [2])] |})];
              rc_writes := [(RqUpdate 0 [9] 5, RespUpdate 11 true None)];
              rc_reads := [(RdList 11, RdOk 10 [(0, [9], 11)])] |} in
  read_check c = true /\ read_oracle c = Some 1.
Proof. vm_compute. split; reflexivity. Qed.
