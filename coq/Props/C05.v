(* C05 — A watch delivers exactly the matching changes, once, in order — or is closed. *)
From KB Require Import Base.Cases Model.WatchSys Model.C05Cases.
Local Open Scope N_scope.

Example C05_placeholder : real_params = mkParams 10000 100 300 100000.
Proof. reflexivity. Qed.
