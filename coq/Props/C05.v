(* C05 — A watch delivers exactly the matching changes, once, in order — or is closed.
   Property theorems only: each is closed by `exact <lemma>` and followed by Print Assumptions.
   Model: Model/WatchSys.v (ring.go, watcherhub.go, watch.go, backend.go:208-273), every theorem about
   `run pa ls (init l c0)` quantifies over ALL label lists ls (interleavings of sequencer take / cache insert /
   broadcast, hub item (incl. the synchronous deletion of slow subscribers), ctx deleter, subscribe / cache read /
   spawn, processEvents step,
   client step, cancel), all channel capacities and batch sizes pa, all cache sizes l >= 1, all initial
   revisions c0; the producer sequence is whatever slots the LSeqTake labels carry (only slot committed+1 is
   taken, failed slots produce no event). *)
From KB Require Import Base.Cases Model.WatchSys Model.C05Cases
  Proofs.WatchRing Proofs.WatchSys Proofs.WatchCatchup Proofs.WatchNoPanic Proofs.WatchFrame Proofs.WatchReasons Proofs.C05Cases.
Local Open Scope N_scope.

(* ---------- ring ---------- *)

(* FindEvents on the ring built by Add returns exactly the cached events (the last min(l,n)) with revision >= S,
   in order, across wrap-around; empty / high / low exactly when the window says so *)
Theorem C05_ring : forall l sigma S, 0 < l -> increasing sigma ->
  exists r, ring_of l sigma = Some r /\ find_events r S = find_spec l sigma S.
Proof. exact ring_find_correct. Qed.
Print Assumptions C05_ring.

(* ---------- the stream ---------- *)

(* the prefix property at full strength: for every interleaving and every accepted watcher, the concatenation of
   the batches its client has received is a prefix of ideal S P sigma — strictly increasing, exactly once each,
   none skipped, right kind/key/value/previous revision; for S = 0: the events fanned out after the subscription *)
Theorem C05_prefix : forall pa l c0 ls i w, 0 < l ->
  nth_error (s_ws (run pa ls (init l c0))) i = Some w -> accepted w = true ->
  is_prefix (concat (w_got w)) (ideal (w_S w) (w_P w) (w_base w) (s_cached (run pa ls (init l c0)))).
Proof. exact prefix_full. Qed.
Print Assumptions C05_prefix.

(* the same on the etcd wire format, which keeps one PUT for create and update (wire_ev): what a watch id of an etcd
   stream carries is a prefix of the ideal stream read through the same projection — one model watcher per watch id *)
Theorem C05_prefix_wire : forall pa l c0 ls i w, 0 < l ->
  nth_error (s_ws (run pa ls (init l c0))) i = Some w -> accepted w = true ->
  is_prefix (map wire_ev (concat (w_got w))) (map wire_ev (ideal (w_S w) (w_P w) (w_base w) (s_cached (run pa ls (init l c0))))).
Proof. exact prefix_wire. Qed.
Print Assumptions C05_prefix_wire.

(* what makes it true: a subscriber whose buffer was found full is closed and unregistered within the same hub
   step, so it is never offered another batch (fix of C05-F1: no asynchronous `go DeleteWatcher`) *)
Theorem C05_dropped_is_closed : forall pa l c0 ls i w, 0 < l ->
  nth_error (s_ws (run pa ls (init l c0))) i = Some w -> w_dropped w = true ->
  w_reg w = false /\ c_closed (w_sub w) = true.
Proof. exact dropped_is_closed. Qed.
Print Assumptions C05_dropped_is_closed.

Theorem C05_never_accepts_after_drop : forall pa l c0 ls, 0 < l -> no_gap (run pa ls (init l c0)).
Proof. exact never_accepts_after_drop. Qed.
Print Assumptions C05_never_accepts_after_drop.

Definition c05_we (r : N) : wevent := mkWe r 0 true VCreate [47; 97] [r].
Definition c05_prod (r : N) : list label := [LSeqTake (c05_we r); LSeqCache; LSeqSend].
Definition c05_small : params := mkParams 1 1 1 10.

(* open result channel and nothing enabled for producer, hub, processEvents, client: everything was delivered *)
Theorem C05_complete : forall pa l c0 ls i w, 0 < l ->
  nth_error (s_ws (run pa ls (init l c0))) i = Some w -> settled (run pa ls (init l c0)) w ->
  concat (w_got w) = ideal (w_S w) (w_P w) (w_base w) (s_cached (run pa ls (init l c0))).
Proof. exact complete_settled. Qed.
Print Assumptions C05_complete.

(* acceptance is sound: a watch with S > 0 is accepted only if every event with revision >= S that was fanned out
   before its subscription was in the cache window FindEvents read (all others are offered to the subscriber) *)
Theorem C05_accept_sound : forall pa l c0 ls i w, 0 < l ->
  nth_error (s_ws (run pa ls (init l c0))) i = Some w -> accepted w = true -> w_S w <> 0 ->
  forall e, In e (firstn (w_base w) (s_cached (run pa ls (init l c0)))) -> w_S w <= e_rev e -> In e (w_snap w).
Proof. exact refusal_sound. Qed.
Print Assumptions C05_accept_sound.

(* refusal has a reason (a Watch that always refuses does not satisfy this): a refused watch has S <> 0 and, for the
   cache as FindEvents saw it (a prefix of the events cached so far), either the cache was empty and S was not above
   the committed revision, or S was not above the newest cached revision but below the oldest one — the history it
   asks for had been evicted, or predates the cache *)
Theorem C05_refused_for_a_reason : forall pa l c0 ls i w, 0 < l ->
  let s := run pa ls (init l c0) in
  nth_error (s_ws s) i = Some w -> w_phase w = PhRefused ->
  refusal_reason l (s_cached s) (s_committed s) (w_S w).
Proof. exact refused_for_a_reason. Qed.
Print Assumptions C05_refused_for_a_reason.

(* a drop has a reason (a hub that always drops does not satisfy this): a dropped subscriber was, at some hub step of
   the run, registered with p_hub batches in its buffer *)
Theorem C05_dropped_for_a_reason : forall pa l c0 ls i w,
  nth_error (s_ws (run pa ls (init l c0))) i = Some w -> w_dropped w = true ->
  exists ls1 o ls2 w0, ls = ls1 ++ LHubItem o :: ls2 /\
    nth_error (s_ws (run pa ls1 (init l c0))) i = Some w0 /\ w_reg w0 = true /\ p_hub pa <= chan_len (w_sub w0).
Proof. exact dropped_for_a_reason. Qed.
Print Assumptions C05_dropped_for_a_reason.

(* the ordering premise of the producer: what the hub has fanned out, what waits in watchChan and the batch
   under construction are, in this order, exactly the cached events, which are strictly increasing *)
Theorem C05_cache_before_broadcast : forall pa l c0 ls, 0 < l ->
  let s := run pa ls (init l c0) in
  s_cached s = s_hub s ++ concat (s_wchan s) ++ s_pending s /\ sorted (s_cached s).
Proof. exact cache_before_broadcast. Qed.
Print Assumptions C05_cache_before_broadcast.

(* catchUpEvents fits into the result channel: Watch never blocks before returning, and never divides by zero *)
Theorem C05_catchup_fits : forall pa evs, fits_params pa -> evs <> [] ->
  exists bs cs, catchup_batch_size pa (N.of_nat (length evs)) = Some bs /\
                chunks (S (length evs)) (N.to_nat bs) evs = Some cs /\
                N.of_nat (length cs) <= p_out pa /\ concat cs = evs.
Proof. exact catchup_fits. Qed.
Print Assumptions C05_catchup_fits.

Theorem C05_catchup_fits_real : fits_params real_params.
Proof. exact real_params_fit. Qed.
Print Assumptions C05_catchup_fits_real.

Theorem C05_watch_never_hangs : forall pa l sigma S P c, fits_params pa ->
  watch_decide pa S P (find_spec l sigma S) c <> DHang /\ watch_decide pa S P (find_spec l sigma S) c <> DPanic.
Proof. exact decide_never_hangs. Qed.
Print Assumptions C05_watch_never_hangs.

(* none of the explicit failure outcomes of the model occurs on a reachable state, for every cache size >= 1 and every
   parameter choice for which catchUpEvents fits (the constants of the code do): no Go panic (Ring.Add on a zero-size
   ring, nil event or out-of-range slice in FindEvents, send on a closed subscriber channel in Stream, division by
   zero in catchUpEvents) and no Watch call blocked for ever in catchUpEvents *)
Theorem C05_no_panic_no_hang : forall pa l c0 ls, 0 < l -> fits_params pa ->
  let s := run pa ls (init l c0) in
  s_panic s = false /\ forall i w, nth_error (s_ws s) i = Some w -> w_phase w <> PhPanic /\ w_phase w <> PhHung.
Proof. exact no_panic_no_hang. Qed.
Print Assumptions C05_no_panic_no_hang.

(* watchers do not influence each other — the model-level content of "several watches multiplexed on one stream, or
   several clients, each get exactly their own events": the state of watcher i (what it holds, what its client has
   received) after a run equals its state after the same run with every step of another watcher j removed (j's cache
   read and spawn, its processEvents and client steps, its cancellation and ctx deleter) *)
Theorem C05_siblings_independent : forall pa l c0 ls i j, 0 < l -> fits_params pa -> i <> j ->
  nth_error (s_ws (run pa ls (init l c0))) i
  = nth_error (s_ws (run pa (filter (fun lb => negb (targets j lb)) ls) (init l c0))) i.
Proof. exact sibling_stream_independent. Qed.
Print Assumptions C05_siblings_independent.

(* the executable oracle accepts every case on which model and implementation agree — ring cases, hub-alone
   scripts and backend runs alike: for every parameter set, cache size l >= 1, initial revision and script
   (labels interleaved with observations), if every observation agrees with the model's state at that point
   (c05_check; it also requires every slot of the script to be the one the model's sequencer takes there) then
   the property evaluated on the observations holds (c05_oracle = None): the received events are a prefix of
   ideal S P sigma over the implementation's own successful writes, and equal to it at an open, settled stream *)
Theorem C05_oracle_sound : forall c, c05_valid c -> c05_check c = true -> c05_oracle c = None.
Proof. exact c05_oracle_sound. Qed.
Print Assumptions C05_oracle_sound.

(* validity is decidable and evaluated on every case: c05_check includes c05_validb, so a case outside the theorem's
   hypothesis is a disagreement; here: the evaluated predicate implies the hypothesis *)
Theorem C05_validb_valid : forall c, c05_validb c = true -> c05_valid c.
Proof. exact c05_validb_valid. Qed.
Print Assumptions C05_validb_valid.

(* so every case that passes the check is covered: no separate hypothesis is left *)
Theorem C05_check_sound : forall c, c05_check c = true -> c05_oracle c = None.
Proof. exact c05_check_sound. Qed.
Print Assumptions C05_check_sound.

(* the ring under a producer of consecutive revisions — the statement the concurrent stress of the driver compares
   the implementation with (cases KSnap): an atomic FindEvents(S) whose S lies inside the window returns exactly the
   revisions S, S+1, ..., newest; outside it reports low / high; for all cache sizes and all S *)
Theorem C05_ring_consecutive : forall l a sigma S r,
  0 < l -> consecutive a sigma -> ring_of l sigma = Some r ->
  match obs_of_find (find_events r S) with
  | ROEvents nw od evs => snap_ok S od nw evs = true
  | ROLow nw od => S < od
  | ROHigh nw od => nw < S
  | ROEmpty => sigma = []
  | ROPanic => False
  end.
Proof. exact ring_consecutive. Qed.
Print Assumptions C05_ring_consecutive.

Theorem C05_oracle_sound_ring : forall l revs S obs,
  c05_valid (KRing l revs S obs) -> c05_check (KRing l revs S obs) = true -> c05_oracle (KRing l revs S obs) = None.
Proof. exact c05_oracle_sound_ring. Qed.
Print Assumptions C05_oracle_sound_ring.

(* ---------- non-vacuity ---------- *)

(* a wrapped ring (l = 3, seven events with gaps) and a start revision inside the window *)
Example C05_ring_wrapped :
  option_map (fun r => obs_of_find (find_events r 108)) (ring_of 3 (map ring_ev [101; 102; 104; 105; 107; 108; 110]))
  = Some (ROEvents 110 107 [Some 108; Some 110]).
Proof. vm_compute. reflexivity. Qed.

(* the ring case check itself (hypotheses of C05_oracle_sound_ring on a concrete KRing case): valid, check passes,
   oracle accepts; a result with the first event missing is rejected by both *)
Example C05_ring_case_inhabited :
  let good := KRing 3 [101; 102; 104; 105; 107; 108; 110] 108 (ROEvents 110 107 [Some 108; Some 110]) in
  let bad := KRing 3 [101; 102; 104; 105; 107; 108; 110] 108 (ROEvents 110 107 [Some 110]) in
  c05_validb good = true /\ c05_check good = true /\ c05_oracle good = None /\ c05_check bad = false /\ c05_oracle bad = Some 0.
Proof. vm_compute. repeat split. Qed.

(* a refused watch: cache of 2 holding revisions 2 and 3, Watch from S = 1 -> refused, with the reason of
   C05_refused_for_a_reason (S below the oldest cached revision 2) *)
Example C05_refused_inhabited :
  let s := run real_params (flat_map (fun r => c05_prod r ++ [LHubItem []]) [1; 2; 3] ++ [LWatchSub 1 []; LWatchRead 0; LWatchSpawn 0]) (init 2 0) in
  match nth_error (s_ws s) 0 with
  | Some w => w_phase w = PhRefused /\ w_S w = 1 /\
              e_rev (hd ev0 (lastn 2 (firstn 3 (s_cached s)))) = 2 /\ e_rev (last (firstn 3 (s_cached s)) ev0) = 3
  | None => False
  end.
Proof. vm_compute. repeat split. Qed.

(* a settled, accepted watcher with replay: S = 2 inside a window of 2, prefix "/a", three events, one catch-up
   batch and one live batch; the hypotheses of C05_complete / C05_accept_sound / C05_prefix hold *)
Definition c05_ok_run : list label :=
  c05_prod 1 ++ [LHubItem []] ++ c05_prod 2 ++ [LHubItem []; LWatchSub 2 [47]; LWatchRead 0] ++
  c05_prod 3 ++ [LWatchSpawn 0; LHubItem []; LProc 0; LProc 0; LConsume 0; LConsume 0].
Example C05_complete_inhabited :
  let s := run real_params c05_ok_run (init 2 0) in
  match nth_error (s_ws s) 0 with
  | Some w => accepted w = true /\ w_gap w = false /\ w_S w <> 0 /\
              map e_rev (concat (w_got w)) = [2; 3] /\ map e_rev (w_snap w) = [2] /\
              s_cur s = None /\ s_pending s = [] /\ s_wchan s = [] /\ w_phase w = PhRun /\
              c_buf (w_sub w) = [] /\ c_closed (w_sub w) = false /\ w_hold w = None /\
              c_buf (w_out w) = [] /\ c_closed (w_out w) = false
  | None => False
  end.
Proof. vm_compute. repeat split; discriminate. Qed.

(* C05_oracle_sound is not vacuous on pipeline cases: a script with a replaying watcher and two observations, the
   second one at an open, settled stream (where the oracle demands completeness), passes the check *)
Example C05_oracle_sound_inhabited :
  let obs g q := RObs (mkObs 0%nat 2 [47] (Some 1) None (Some g) (Some false) q false) in
  let c := KRun real_params 2 0
             (map RL (c05_prod 1 ++ [LHubItem []] ++ c05_prod 2 ++ [LHubItem []; LWatchSub 2 [47]; LWatchRead 0]) ++
              map RL (c05_prod 3 ++ [LWatchSpawn 0; LConsume 0]) ++ [obs [GE (to_event (c05_we 2))] false] ++
              map RL [LHubItem []; LProc 0; LProc 0; LConsume 0] ++
              [obs [GE (to_event (c05_we 2)); GE (to_event (c05_we 3))] true]) in
  c05_valid c /\ c05_check c = true /\ c05_oracle c = None.
Proof. vm_compute. repeat split. Qed.

(* a wrapped ring of consecutive revisions 101..110 in 4 slots: FindEvents(108) is the snapshot 108, 109, 110 that
   C05_ring_consecutive predicts; a result as the unlock-before-copy mutant produced is rejected by the case check *)
Example C05_ring_consecutive_inhabited :
  let sigma := map ring_ev (nseq 101 10) in
  consecutive 101 sigma /\
  option_map (fun r => obs_of_find (find_events r 108)) (ring_of 4 sigma) = Some (ROEvents 110 107 [Some 108; Some 109; Some 110]) /\
  c05_check (KSnap 108 107 110 [Some 108; Some 109; Some 110]) = true /\
  c05_oracle (KSnap 108 107 110 [Some 111; Some 109; Some 110]) = Some 0.
Proof. vm_compute. repeat split. Qed.

(* an etcd-carried watch (o_wire): the CREATE of revision 2 arrives as a PUT on the wire and is accepted modulo the
   kind; without the flag the same observation is a disagreement *)
Example C05_wire_projection_inhabited :
  let put2 := mkEv VPut 2 [47; 97] [2] 2 in
  let run wire := KRun real_params 2 0
     (map RL (c05_prod 1 ++ [LHubItem []; LWatchSub 0 [47]; LWatchSpawn 0] ++ c05_prod 2 ++ [LHubItem []; LProc 0; LProc 0; LConsume 0]) ++
      [RObs (mkObs 0%nat 0 [47] (Some 1) None (Some [GE put2]) (Some false) true wire)]) in
  c05_check (run true) = true /\ c05_oracle (run true) = None /\ c05_check (run false) = false.
Proof. vm_compute. repeat split. Qed.

(* both hypotheses of C05_no_panic_no_hang are needed: a zero-size cache panics in Ring.Add, and with result channel 4 /
   batch 1 a replay of five events blocks Watch for ever *)
Example C05_no_panic_hypotheses_needed :
  s_panic (run real_params (c05_prod 1) (init 0 0)) = true /\
  match nth_error (s_ws (run (mkParams 10 4 1 10)
          (flat_map (fun r => c05_prod r ++ [LHubItem []]) [1; 2; 3; 4; 5] ++ [LWatchSub 1 []; LWatchRead 0; LWatchSpawn 0]) (init 8 0))) 0 with
  | Some w => w_phase w = PhHung
  | None => False
  end.
Proof. vm_compute. split; reflexivity. Qed.

(* two watchers on the same events; with all steps of watcher 1 removed from the run watcher 0 is the same, and has
   received both events *)
Example C05_siblings_independent_inhabited :
  let ls := [LWatchSub 0 [47]; LWatchSub 1 []; LWatchSpawn 0] ++ c05_prod 1 ++ [LHubItem []; LWatchRead 1; LWatchSpawn 1; LProc 1] ++
            c05_prod 2 ++ [LHubItem []; LProc 0; LProc 0; LConsume 0; LProc 1; LCancel 1; LCtxDelete 1; LProc 0; LProc 0; LConsume 0] in
  length (filter (fun lb => negb (targets 1 lb)) ls) = 17%nat /\ length ls = 23%nat /\
  option_map (fun w => map e_rev (concat (w_got w))) (nth_error (s_ws (run real_params ls (init 2 0))) 0) = Some [1; 2] /\
  nth_error (s_ws (run real_params ls (init 2 0))) 0
  = nth_error (s_ws (run real_params (filter (fun lb => negb (targets 1 lb)) ls) (init 2 0))) 0.
Proof. vm_compute. repeat split. Qed.

(* the overflow run on the repaired hub (capacities 1/1/1): batch 2 finds the buffer full, the subscriber is
   closed at once, batch 3 is not offered to it: the client receives revision 1 and then the close *)
Definition c05_overflow_run : list label :=
  [LWatchSub 0 []; LWatchSpawn 0] ++ c05_prod 1 ++ c05_prod 2 ++ c05_prod 3 ++
  [LHubItem []; LHubItem []; LProc 0; LProc 0; LHubItem []; LProc 0; LConsume 0; LProc 0; LConsume 0].
Example C05_overflow_closes :
  match nth_error (s_ws (run c05_small c05_overflow_run (init 2 0))) 0 with
  | Some w => w_dropped w = true /\ map e_rev (concat (w_got w)) = [1] /\ w_seen_close w = true /\ w_gap w = false
  | None => False
  end.
Proof. vm_compute. repeat split. Qed.

(* the hub as it was before the repair (asynchronous deleter, hub_item_async / late_delete): the same schedule with
   the deleter running late lets the stream continue past the dropped batch — revisions 1 and 3 delivered, 2
   skipped, then the close. This was finding C05-F1; the driver keeps its witness in the fixed corpus. *)
Example C05_async_delete_was_wrong :
  let s0 := run c05_small ([LWatchSub 0 []; LWatchSpawn 0] ++ c05_prod 1 ++ c05_prod 2 ++ c05_prod 3) (init 2 0) in
  let s1 := hub_item_async c05_small (hub_item_async c05_small s0) in           (* 1 accepted, 2 dropped *)
  let s2 := run c05_small [LProc 0; LProc 0] s1 in                                (* the client side makes room *)
  let s3 := hub_item_async c05_small s2 in                                        (* 3 accepted after the drop *)
  let s4 := run c05_small [LProc 0; LConsume 0; LProc 0; LConsume 0] s3 in
  let s5 := run c05_small [LProc 0; LConsume 0] (late_delete 0 s4) in
  match nth_error (s_ws s5) 0 with
  | Some w => accepted w = true /\ w_gap w = true /\ map e_rev (concat (w_got w)) = [1; 3] /\ w_seen_close w = true /\
              prefixb (concat (w_got w)) (ideal (w_S w) (w_P w) (w_base w) (s_cached s5)) = false
  | None => False
  end.
Proof. vm_compute. repeat split. Qed.

(* the parameter hypothesis of C05_catchup_fits is needed: out = 4, batch = 1, five events -> blocked for ever *)
Example C05_catchup_hypothesis_needed :
  let evs := map (fun r => to_event (c05_we r)) [1; 2; 3; 4; 5] in
  watch_decide (mkParams 10 4 1 10) 1 [] (FEvents (to_event (c05_we 5)) (to_event (c05_we 1)) (map Some evs)) 5 = DHang.
Proof. vm_compute. reflexivity. Qed.

(* the ordering premise is needed: with broadcast before cache insert (step_swapped) a watch registered between
   the two loses revision 2 although its stream continues: delivered 1, 3 *)
Definition c05_swapped_run : list label :=
  [LSeqTake (c05_we 1); LSeqSend; LSeqCache; LHubItem [];
   LSeqTake (c05_we 2); LSeqSend; LHubItem []; LWatchSub 1 []; LWatchRead 0; LWatchSpawn 0; LSeqCache;
   LSeqTake (c05_we 3); LSeqSend; LSeqCache; LHubItem [];
   LConsume 0; LProc 0; LProc 0; LConsume 0].
Example C05_order_needed :
  let s := run_swapped real_params c05_swapped_run (init 4 0) in
  match nth_error (s_ws s) 0 with
  | Some w => accepted w = true /\ w_gap w = false /\ map e_rev (concat (w_got w)) = [1; 3] /\
              map e_rev (ideal (w_S w) (w_P w) (w_base w) (s_cached s)) = [1; 2; 3]
  | None => False
  end.
Proof. vm_compute. repeat split. Qed.
