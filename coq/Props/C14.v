(* C14 — The leader lock is taken by at most one candidate per observed state.
   All theorems are over Model/Election.v: any number of candidates (ids are arbitrary N), every
   label list = every interleaving of their Get / Create / Update steps, every environment outcome
   of every engine call (answered, failed, unknown-outcome commit, failed timestamp read).
   Property theorems only: each is closed by `exact <lemma>` and followed by Print Assumptions. *)
From KB Require Import Base.Cases Model.Election Model.C14Cases Model.Lease Model.RecordFormat Proofs.Election Proofs.C14Cases Proofs.Lease Proofs.RecordFormat.
Local Open Scope N_scope.

(* An Update is applied only if the stored record equals, at the instant of application, the bytes
   the candidate supplied as old value, and these are the bytes it last obtained from Get/Create.
   (e_pre = what was stored, e_cond = r.lastVal as passed to CAS, e_obs = ghost record of what
   Get/Create last delivered to that candidate.) *)
Theorem C14_update_sound : forall st0 ls e,
  In e (log (run (init st0) ls)) -> e_create e = false ->
  exists x, e_pre e = Some x /\ e_cond e = Some x /\ e_obs e = Some x.
Proof. exact update_sound. Qed.
Print Assumptions C14_update_sound.

(* the same on the step: in every reachable state, an Update that takes effect found its lastVal
   stored, and lastVal is what the candidate last obtained *)
Theorem C14_update_sound_step : forall st0 ls c h b e t,
  let s := run (init st0) ls in
  o_applied (run_op s (LUpdate c h b e t)) = true ->
  rec_bytes (store s) = Some (lastVal (cands s c)) /\ observed s c = Some (lastVal (cands s c)).
Proof. exact update_sound_step. Qed.
Print Assumptions C14_update_sound_step.

(* At most one Create is ever applied, none if the record exists initially; nothing deletes it. *)
Theorem C14_create_unique : forall st0 ls,
  let l := log (run (init st0) ls) in
  (length (filter e_create l) <= 1)%nat /\ (st0 <> None -> filter e_create l = []).
Proof. exact create_unique. Qed.
Print Assumptions C14_create_unique.

Theorem C14_record_never_deleted : forall ls s, store s <> None -> store (run s ls) <> None.
Proof. exact store_never_deleted_run. Qed.
Print Assumptions C14_record_never_deleted.

(* Two candidates holding the same observed bytes X, both attempting Update with records <> X:
   at most one is applied. From ANY state s (reachable or not): c's Update is applied; then, as long
   as d does not refresh its observation and nobody writes X back (Forall quiet), d's Update —
   still conditioned on X — is not applied. The hypothesis "new record differs from X" is b1 <> X
   and the lab_write part of quiet; it is needed (Example C14_aba) and satisfiable
   (Example C14_two_candidates). c = d is allowed: see C14_second_renewal_needs_get. *)
Theorem C14_no_double_acquire_except_aba : forall s c d X h1 b1 e1 t1 mid h2 b2 e2 t2,
  lastVal (cands s c) = X -> lastVal (cands s d) = X ->
  b1 <> X -> Forall (quiet d X) mid ->
  o_applied (run_op s (LUpdate c h1 b1 e1 t1)) = true ->
  o_applied (run_op (run (step s (LUpdate c h1 b1 e1 t1)) mid) (LUpdate d h2 b2 e2 t2)) = false.
Proof. exact stale_update_rejected. Qed.
Print Assumptions C14_no_double_acquire_except_aba.

(* the same on the ghost log of any run: two applied writes conditioned on the same bytes X, with
   every record written from the first one up to the second differing from X, cannot both exist *)
Theorem C14_no_double_acquire_log_except_aba : forall st0 ls l3 e2 l2 e1 l1 X,
  log (run (init st0) ls) = l3 ++ e2 :: l2 ++ e1 :: l1 ->
  e_cond e1 = Some X -> e_cond e2 = Some X ->
  e_new e1 <> X -> (forall e, In e l2 -> e_new e <> X) ->
  False.
Proof. exact no_double_acquire_log. Qed.
Print Assumptions C14_no_double_acquire_log_except_aba.

(* The ABA side condition ("nobody writes X back") discharged for records formed the way client-go's
   elector forms them (Model/RecordFormat.v: tryAcquireOrRenew step 3 and release(): a renewal keeps
   LeaderTransitions, a take-over increments it, a release keeps it) and ANY injective marshalling of
   (holder, acquire, renew, transitions): two applied updates conditioned on the same bytes X, the older one
   a take-over, cannot both exist — after a take-over from X every later record carries more transitions
   than X. A renewal may legitimately write X's own bytes again (metav1.Time has second resolution): that
   is X -> X by the holder itself, not a second acquisition. *)
Theorem C14_no_double_takeover : forall (marshal : srec -> bytes),
  (forall a b, marshal a = marshal b -> a = b) ->
  forall st0 ls l3 e2 l2 e1 l1 X,
  log (run (init st0) ls) = l3 ++ e2 :: l2 ++ e1 :: l1 ->
  Forall (cg_formed marshal) (l2 ++ [e1]) ->
  e_cond e1 = Some X -> e_cond e2 = Some X ->
  (forall x y, e_cond e1 = Some (marshal x) -> e_new e1 = marshal y -> is_takeover x y) ->
  False.
Proof. exact no_double_takeover. Qed.
Print Assumptions C14_no_double_takeover.

(* the elector's rules do form such records *)
Theorem C14_clientgo_records_formed : forall me now x,
  (s_trans x <= s_trans (cg_update me now x) /\ (is_takeover x (cg_update me now x) -> s_trans x < s_trans (cg_update me now x))) /\
  (s_trans x <= s_trans (cg_release x) /\ (is_takeover x (cg_release x) -> s_trans x < s_trans (cg_release x))).
Proof. intros me now x. exact (conj (cg_update_formed me now x) (cg_release_formed x)). Qed.
Print Assumptions C14_clientgo_records_formed.

(* The applied writes form a chain: each one found in place exactly the bytes of the previously
   applied write (or the initial record); an update's condition is that; a create found nothing;
   and the record stored at the end is the newest applied write. *)
Theorem C14_no_silent_overwrite : forall st0 ls l2 e l1,
  log (run (init st0) ls) = l2 ++ e :: l1 ->
  e_pre e = cur (rec_bytes st0) l1 /\
  (e_create e = false -> e_cond e = cur (rec_bytes st0) l1) /\
  (e_create e = true -> cur (rec_bytes st0) l1 = None).
Proof. exact no_silent_overwrite. Qed.
Print Assumptions C14_no_silent_overwrite.

Theorem C14_chain : forall st0 ls,
  let s := run (init st0) ls in
  log_chain (rec_bytes st0) (log s) /\ rec_bytes (store s) = cur (rec_bytes st0) (log s) /\
  Forall entry_ok (log s).
Proof. exact chain. Qed.
Print Assumptions C14_chain.

(* What "lastVal is not refreshed by a successful Update" (election.go:148-167) means: a leader's
   second Update without a Get in between is never applied (it is still conditioned on the bytes
   from before its own first Update). client-go's tryAcquireOrRenew (the version vendored by the
   repository) always calls Get first, so renewals work; LeaderElector.release() (ReleaseOnCancel
   is set in leader.go) calls Update without Get and therefore always fails after a successful
   renewal. Safety is unaffected (this theorem is an instance of C14_no_double_acquire_except_aba with c = d). *)
Theorem C14_second_renewal_needs_get : forall s c h1 b1 e1 t1 h2 b2 e2 t2,
  b1 <> lastVal (cands s c) ->
  o_applied (run_op s (LUpdate c h1 b1 e1 t1)) = true ->
  o_applied (run_op (step s (LUpdate c h1 b1 e1 t1)) (LUpdate c h2 b2 e2 t2)) = false.
Proof. exact second_update_needs_get. Qed.
Print Assumptions C14_second_renewal_needs_get.

Theorem C14_get_refreshes : forall s c t r, store s = Some r ->
  lastVal (cands (step s (LGet c GOk t)) c) = rbytes r.
Proof. exact get_refreshes. Qed.
Print Assumptions C14_get_refreshes.

(* Only the candidate's own Get and Create assign lastVal — the invariant behind all of the above
   (inv_last: lastVal = the bytes last obtained by Get/Create). No Update, and no information lookup
   on the node (leader.go GetLeaderInfo / GetElectionInfo -> Describe: label LInfo), re-bases what the
   candidate's next Update is conditioned on. *)
Theorem C14_lastVal_only_get_create : forall s l c,
  lastVal (cands (step s l) c) <> lastVal (cands s c) ->
  (exists e t, l = LGet c e t) \/ (exists h b e t, l = LCreate c h b e t).
Proof. exact lastVal_only_get_create. Qed.
Print Assumptions C14_lastVal_only_get_create.

Theorem C14_info_changes_nothing : forall s c,
  store (step s (LInfo c)) = store s /\ (forall x, cands (step s (LInfo c)) x = cands s x) /\ log (step s (LInfo c)) = log s.
Proof. exact info_changes_nothing. Qed.
Print Assumptions C14_info_changes_nothing.

(* Unknown-outcome commits (storage.ErrUncertainResult: the engine cannot tell whether the write landed;
   environment outcome CUnknown = takes effect iff its condition holds, CErr = lost; CRefused = the engine refuses a
   write whose condition holds, e.g. TiKV answering the prewrite with a Retryable / Abort key error) are part of every
   theorem above (the label lists range over all environment outcomes). The lock object reports them
   only as errors, never as an acquisition; and success is reported only for a write that took effect —
   which is why the oracle treats every call that returned nil as an applied-write claim. *)
Theorem C14_unknown_never_success : forall st k h b t,
  o_res (do_create st k h b CUnknown t) <> ROk /\ o_res (do_update st k h b CUnknown t) <> ROk /\
  o_res (do_create st k h b CErr t) <> ROk /\ o_res (do_update st k h b CErr t) <> ROk /\
  o_res (do_create st k h b CRefused t) <> ROk /\ o_res (do_update st k h b CRefused t) <> ROk.
Proof. exact unknown_never_success. Qed.
Print Assumptions C14_unknown_never_success.

Theorem C14_ok_implies_applied : forall s l,
  (match l with LCreate _ _ _ _ _ | LUpdate _ _ _ _ _ => True | _ => False end) ->
  o_res (run_op s l) = ROk -> o_applied (run_op s l) = true.
Proof. exact ok_implies_applied. Qed.
Print Assumptions C14_ok_implies_applied.

(* ---- the elector-level statement: at most one elector believes it leads within a lease ----
   Timed model (Model/Lease.v) of what client-go's LeaderElector does with the lock. Global clock; the
   clock-rate hypothesis is in the constants: L = shortest global duration a challenger waits, after it
   first saw a record held by somebody else, before writing over it (LeaseDuration / (1+drift));
   B = longest global duration an elector keeps believing it leads after one of its writes took effect
   ((d + RetryPeriod + RenewDeadline) * (1+drift), d = how long after the write took effect the Update
   call may return). lease_ok: the accepted writes of the record, oldest first — a chain by
   C14_no_silent_overwrite — in which a write over a record held by another elector comes at least L
   after that record was written (C14_guard_gives_step: that is what tryAcquireOrRenew's observedTime
   guard yields, an elector never having seen a record before it was written). HYPOTHESIS B <= L.
   With leader.go's constants (8 s / 5 s / 1 s) this needs d <= 2 s at drift 0: the lock's commit has a 1 s
   time-out, but the timestamp read that follows it in Update (context.Background()) has none — d is then
   bounded only by the renew deadline (5 s), B = 11 s > L: outside the hypothesis. *)
Theorem C14_one_leader_per_lease : forall L B ws c d t,
  lease_ok L ws -> B <= L -> believes B ws c t -> believes B ws d t -> c = d.
Proof. exact one_leader. Qed.
Print Assumptions C14_one_leader_per_lease.

(* the same for every run of the timed system of Model/Lease.v: any number of electors, any interleaving of
   TObserve (Get + observedTime bookkeeping), TWrite (Create / Update / release: guarded by what the elector
   observed, applied iff the stored record is still the observed one) and TTick *)
Theorem C14_one_leader_timed : forall L B ls c d t,
  B <= L ->
  let ws := rev (t_log (trun L tsys0 ls)) in
  believes B ws c t -> believes B ws d t -> c = d.
Proof. exact one_leader_timed. Qed.
Print Assumptions C14_one_leader_timed.

(* what ties the timed system to the lock model: a TWrite is applied under exactly the rule Election.v's
   Create / Update obey — the stored record is still the one the elector observed — plus the elector's guard
   (no refinement between the two models is proved beyond this shared rule; no driver case runs tstep) *)
Theorem C14_twrite_applied_iff : forall L s c rel,
  t_log (tstep L s (TWrite c rel)) <> t_log s <->
  ((if rel then match e_rec (t_els s c) with Some r => opt_eqb N.eqb (w_holder r) (Some c) | None => false end
    else may_write L c (t_els s c) (t_now s)) = true /\ t_stored s = e_rec (t_els s c)).
Proof. exact twrite_applied_iff. Qed.
Print Assumptions C14_twrite_applied_iff.

Theorem C14_guard_gives_step : forall L me s now r,
  seen_ok s -> e_rec s = Some r -> may_write L me s now = true ->
  match w_holder r with Some h => h <> me -> w_time r + L <= now | None => True end.
Proof. exact guard_gives_step. Qed.
Print Assumptions C14_guard_gives_step.

Theorem C14_observe_keeps_seen_ok : forall s now r, seen_ok s -> w_time r <= now -> seen_ok (observe s now r).
Proof. exact observe_seen_ok. Qed.
Print Assumptions C14_observe_keeps_seen_ok.

(* the executable oracle used on the implementation's traces accepts every model trace *)
Theorem C14_oracle_sound : forall c, c14_check c = true -> c14_oracle c = None.
Proof. exact c14_oracle_sound. Qed.
Print Assumptions C14_oracle_sound.

(* ---- non-vacuity ---- *)
Definition rA : bytes := [65; 49].   (* record written by candidate 1 *)
Definition rB : bytes := [66; 50].   (* record written by candidate 2 *)
Definition rX : bytes := [88; 48].   (* the record both observe *)
Definition idA : bytes := [65].
Definition idB : bytes := [66].
Definition x0 : option lrec := Some (mkRec rX (Some [88])).

(* two candidates read X; both try to take over with their own record; exactly one is applied and
   the other gets a conflict *)
Example C14_two_candidates :
  let s := run (init x0) [LGet 1 GOk (TOk 5); LGet 2 GOk (TOk 6)] in
  lastVal (cands s 1) = rX /\ lastVal (cands s 2) = rX /\ rA <> rX /\ rB <> rX /\
  o_applied (run_op s (LUpdate 1 idA rA COk (TOk 7))) = true /\
  o_res (run_op (step s (LUpdate 1 idA rA COk (TOk 7))) (LUpdate 2 idB rB COk (TOk 8))) = RConflict /\
  Forall (quiet 2 rX) [].
Proof. vm_compute. repeat split; try discriminate. constructor. Qed.

(* the hypothesis is needed: if a third party writes X back (ABA), the stale candidate succeeds *)
Example C14_aba :
  let s := run (init x0) [LGet 1 GOk (TOk 5); LGet 2 GOk (TOk 6); LUpdate 1 idA rA COk (TOk 7);
                          LGet 3 GOk (TOk 8); LUpdate 3 [88] rX COk (TOk 9)] in
  o_applied (run_op s (LUpdate 2 idB rB COk (TOk 10))) = true.
Proof. vm_compute. reflexivity. Qed.

(* take-over against a renewal: A reads R0 (holder X); X renews (R0 -> R1); an information lookup
   happens on A's node; A's take-over, decided on R0, is rejected and R1 stays *)
Example C14_takeover_vs_renewal :
  let s := run (init x0) [LGet 3 GOk (TOk 4); LGet 1 GOk (TOk 5); LUpdate 3 [88] rB COk (TOk 6); LInfo 1] in
  o_res (run_op s (LUpdate 1 idA rA COk (TOk 7))) = RConflict /\
  rec_bytes (store (step s (LUpdate 1 idA rA COk (TOk 7)))) = Some rB /\
  Forall (quiet 1 rX) [LInfo 1].
Proof. vm_compute. repeat split. constructor; [split; [exact I|discriminate]|constructor]. Qed.

(* a create race from an absent record: one applied, one conflict; the log has one create *)
Example C14_create_race :
  let s := run (init None) [LGet 1 GOk (TOk 1); LGet 2 GOk (TOk 1);
                            LCreate 2 idB rB COk (TOk 2); LCreate 1 idA rA COk (TOk 3)] in
  rec_bytes (store s) = Some rB /\ length (log s) = 1%nat /\
  o_res (run_op (run (init None) [LCreate 2 idB rB COk (TOk 2)]) (LCreate 1 idA rA COk (TOk 3))) = RConflict.
Proof. vm_compute. repeat split. Qed.

(* renew twice without Get: the second one conflicts; with a Get it is applied *)
Example C14_renew_twice :
  let s := run (init None) [LCreate 1 idA rA COk (TOk 2)] in
  o_applied (run_op s (LUpdate 1 idA rB COk (TOk 3))) = true /\
  o_res (run_op (step s (LUpdate 1 idA rB COk (TOk 3))) (LUpdate 1 idA rX COk (TOk 4))) = RConflict /\
  o_res (run_op (run s [LUpdate 1 idA rB COk (TOk 3); LGet 1 GOk (TOk 4)]) (LUpdate 1 idA rX COk (TOk 5))) = ROk.
Proof. vm_compute. repeat split. Qed.

(* the oracle is not trivially true: a trace in which a stale Update reports success is rejected *)
Example C14_oracle_rejects :
  c14_oracle (mkCase x0
    [mkStep (LGet 1 GOk (TOk 5)) ROk true false (Some rX) (Some rX) ([88], 5);
     mkStep (LGet 2 GOk (TOk 6)) ROk true false (Some rX) (Some rX) ([88], 6);
     mkStep (LUpdate 1 idA rA COk (TOk 7)) ROk true false None (Some rA) ([88], 7);
     mkStep (LInfo 2) ROk false false None (Some rA) ([88], 6);
     mkStep (LUpdate 2 idB rB COk (TOk 8)) ROk true false None (Some rB) ([88], 8)]) = Some 0.
Proof. vm_compute. reflexivity. Qed.

(* a lost unknown-outcome Update after a competitor took the lock: error for the loser, the winner's record stays *)
Example C14_lost_unknown_update :
  let s := run (init x0) [LGet 1 GOk (TOk 5); LGet 2 GOk (TOk 6); LUpdate 2 idB rB COk (TOk 7)] in
  o_res (run_op s (LUpdate 1 idA rA CUnknown (TOk 8))) = RErr /\
  rec_bytes (store (step s (LUpdate 1 idA rA CUnknown (TOk 8)))) = Some rB.
Proof. vm_compute. split; reflexivity. Qed.

(* the lease theorem is not vacuous. Times in ms, drift 3%: L = 8000/1.03 = 7766, B = (1000+1000+5000)*1.03 = 7210.
   A renews at 0 and 2000, stalls; B takes over at 9800 (>= 2000 + L); A releases nothing. *)
Definition ws_ex : list wr :=
  [mkWr 1 (Some 1) 0; mkWr 1 (Some 1) 2000; mkWr 2 (Some 2) 9800; mkWr 2 (Some 2) 10800; mkWr 2 None 11000; mkWr 3 (Some 3) 11001].
Example C14_lease_inhabited :
  lease_ok 7766 ws_ex /\ 7210 <= 7766 /\ believes 7210 ws_ex 1 9000 /\ believes 7210 ws_ex 2 10900.
Proof.
  split; [|split; [|split]].
  - simpl. repeat split; simpl; auto; try lia; try (intros H; first [lia | exfalso; apply H; reflexivity]).
  - lia.
  - exists [mkWr 1 (Some 1) 0], (mkWr 1 (Some 1) 2000), [mkWr 2 (Some 2) 9800; mkWr 2 (Some 2) 10800; mkWr 2 None 11000; mkWr 3 (Some 3) 11001].
    simpl. repeat split; try lia. repeat constructor; simpl; intros; try lia; try congruence.
  - exists [mkWr 1 (Some 1) 0; mkWr 1 (Some 1) 2000; mkWr 2 (Some 2) 9800], (mkWr 2 (Some 2) 10800), [mkWr 2 None 11000; mkWr 3 (Some 3) 11001].
    simpl. repeat split; try lia. repeat constructor; simpl; intros; try lia; try congruence.
Qed.
(* the hypothesis B <= L is needed: with B = 11000 (Update returning up to the renew deadline after its
   write took effect) elector 1 still believes at 9900 while elector 2 has taken over *)
Example C14_lease_hypothesis_needed :
  lease_ok 7766 ws_ex /\ believes 11000 ws_ex 1 9900 /\ believes 11000 ws_ex 2 9900.
Proof.
  split; [|split].
  - simpl. repeat split; simpl; auto; try lia; try (intros H; first [lia | exfalso; apply H; reflexivity]).
  - exists [mkWr 1 (Some 1) 0], (mkWr 1 (Some 1) 2000), [mkWr 2 (Some 2) 9800; mkWr 2 (Some 2) 10800; mkWr 2 None 11000; mkWr 3 (Some 3) 11001].
    simpl. repeat split; try lia. repeat constructor; simpl; intros; try lia; try congruence.
  - exists [mkWr 1 (Some 1) 0; mkWr 1 (Some 1) 2000], (mkWr 2 (Some 2) 9800), [mkWr 2 (Some 2) 10800; mkWr 2 None 11000; mkWr 3 (Some 3) 11001].
    simpl. repeat split; try lia. repeat constructor; simpl; intros; try lia; try congruence.
Qed.

(* a run of the timed system: 1 creates and renews, stalls; 2 observes at 2500 and may only take over after
   a lease (its early attempt at 9000 is refused by its own guard); 1's stale release at 12000 is refused by
   the compare-and-swap *)
Definition run_ex : list tlabel :=
  [TObserve 1; TWrite 1 false; TTick 2000; TObserve 1; TWrite 1 false; TTick 500; TObserve 2;
   TTick 6500; TWrite 2 false; TTick 1500; TWrite 2 false; TTick 1500; TWrite 1 true; TObserve 3; TWrite 3 false].
Example C14_timed_run :
  rev (t_log (trun 7766 tsys0 run_ex)) = [mkWr 1 (Some 1) 0; mkWr 1 (Some 1) 2000; mkWr 2 (Some 2) 10500].
Proof. vm_compute. reflexivity. Qed.

(* ---- audit: inhabitation ---- *)
(* the hypotheses of C14_no_double_takeover hold on a concrete run with an injective marshalling *)
Example C14_no_double_takeover_inhabited :
  (forall a b, marshal_ex a = marshal_ex b -> a = b) /\
  (let l := log (run (init (Some (mkRec (marshal_ex sX) (Some [88]))))
                     [LGet 1 GOk (TOk 5); LGet 3 GOk (TOk 6); LUpdate 1 [65] (marshal_ex sA) COk (TOk 7);
                      LUpdate 3 [67] (marshal_ex (cg_update [67] 8 sX)) COk (TOk 8)]) in
   length l = 1%nat /\ Forall (cg_formed marshal_ex) l /\
   (forall e, In e l -> forall x y, e_cond e = Some (marshal_ex x) -> e_new e = marshal_ex y -> is_takeover x y)).
Proof. split; [exact marshal_ex_inj|exact takeover_example]. Qed.
(* C14_no_double_acquire_except_aba with a non-empty quiet list in between *)
Example C14_no_double_acquire_mid :
  let s := run (init x0) [LGet 1 GOk (TOk 5); LGet 2 GOk (TOk 6)] in
  Forall (quiet 2 rX) [LInfo 2; LGet 3 GOk (TOk 7); LUpdate 3 [67] [67; 51] COk (TOk 8)] /\
  o_applied (run_op s (LUpdate 1 idA rA COk (TOk 7))) = true /\
  o_applied (run_op (run (step s (LUpdate 1 idA rA COk (TOk 7))) [LInfo 2; LGet 3 GOk (TOk 7); LUpdate 3 [67] [67; 51] COk (TOk 8)])
                    (LUpdate 2 idB rB COk (TOk 9))) = false.
Proof.
  split; [|vm_compute; split; reflexivity].
  repeat constructor; try exact I; simpl; try discriminate.
Qed.
(* a non-empty trace on which model and observation agree (and the oracle accepts) *)
Example C14_check_inhabited :
  let c := mkCase x0
    [mkStep (LGet 1 GOk (TOk 5)) ROk true false (Some rX) (Some rX) ([88], 5);
     mkStep (LGet 2 GOk (TOk 6)) ROk true false (Some rX) (Some rX) ([88], 6);
     mkStep (LUpdate 1 idA rA COk (TOk 7)) ROk true false None (Some rA) ([88], 7);
     mkStep (LInfo 2) ROk false false None (Some rA) ([88], 6);
     mkStep (LUpdate 2 idB rB COk (TOk 8)) RConflict false false None (Some rA) ([88], 6)] in
  c14_check c = true /\ c14_oracle c = None.
Proof. vm_compute. split; reflexivity. Qed.
(* hypotheses of C14_guard_gives_step / C14_observe_keeps_seen_ok; believes over the run of the timed system *)
Example C14_guard_inhabited :
  let r := mkWr 1 (Some 1) 2000 in let s := observe (mkE None 0) 2500 r in
  seen_ok s /\ e_rec s = Some r /\ may_write 7766 2 s 10500 = true /\ may_write 7766 2 s 9000 = false /\ w_time r <= 2500.
Proof. vm_compute. repeat split; discriminate. Qed.
Example C14_timed_believes :
  let ws := rev (t_log (trun 7766 tsys0 run_ex)) in
  believes 7210 ws 1 9000 /\ believes 7210 ws 2 11000 /\ 7210 <= 7766.
Proof.
  cbv zeta. rewrite C14_timed_run. split; [|split; [|lia]].
  - exists [mkWr 1 (Some 1) 0], (mkWr 1 (Some 1) 2000), [mkWr 2 (Some 2) 10500].
    simpl. repeat split; try lia. repeat constructor; simpl; intros; try lia; try congruence.
  - exists [mkWr 1 (Some 1) 0; mkWr 1 (Some 1) 2000], (mkWr 2 (Some 2) 10500), [].
    simpl. repeat split; try lia. constructor.
Qed.
