(* C10 — Internal key encoding is reversible and order-preserving.
   Property theorems only: each is closed by `exact <lemma>` and followed by Print Assumptions. *)
From KB Require Import Base.Cases Model.Coder Model.C10Cases Proofs.Coder Proofs.C10Cases.
Local Open Scope N_scope.

(* decoding an encoded key gives back key and revision — all byte strings, all 64-bit revisions *)
Theorem C10_decode_encode : forall k r, r < two64 -> decode (encode k r) = DecOk k r.
Proof. exact decode_encode. Qed.
Print Assumptions C10_decode_encode.

(* encoded keys sort by key first and revision second (documented alphabet: bytes > '$') *)
Theorem C10_encode_order : forall k1 r1 k2 r2, alpha k1 -> alpha k2 -> r1 < two64 -> r2 < two64 ->
  bcmp (encode k1 r1) (encode k2 r2) = kr_cmp k1 r1 k2 r2.
Proof. exact encode_cmp. Qed.
Print Assumptions C10_encode_order.

(* all versions of one key are contiguous, index record (revision 0) first *)
Theorem C10_contiguous : forall k k' r' r2, alpha k -> alpha k' -> r' < two64 -> r2 < two64 ->
  bcmp (encode k 0) (encode k' r') <> Gt -> bcmp (encode k' r') (encode k r2) <> Gt -> k' = k.
Proof. exact encode_contiguous0. Qed.
Print Assumptions C10_contiguous.

Theorem C10_index_first : forall k r, alpha k -> r < two64 -> bcmp (encode k 0) (encode k r) <> Gt.
Proof. exact index_first. Qed.
Print Assumptions C10_index_first.

(* bounds computed for a raw range enclose exactly the records of the raw keys inside it *)
Theorem C10_range_bounds : forall a b k r, alpha a -> alpha b -> alpha k -> r < two64 ->
  (bcmp a k <> Gt /\ bcmp k b = Lt) <->
  (bcmp (encode a 0) (encode k r) <> Gt /\ bcmp (encode k r) (encode b 0) = Lt).
Proof. exact range_bounds. Qed.
Print Assumptions C10_range_bounds.

(* PrefixEnd: [p, PrefixEnd p) is exactly the set of keys with prefix p; the fall-through
   happens exactly for the empty and the all-0xff prefix *)
Theorem C10_prefix_end : forall p e k, wf_bytes p -> wf_bytes k -> prefix_end_opt p = Some e ->
  (has_prefix p k = true <-> (bcmp p k <> Gt /\ bcmp k e = Lt)).
Proof. exact prefix_end_opt_spec. Qed.
Print Assumptions C10_prefix_end.

Theorem C10_prefix_end_none : forall p, wf_bytes p ->
  (prefix_end_opt p = None <-> p = [] \/ (p <> [] /\ all255 p)).
Proof. exact prefix_end_none_iff. Qed.
Print Assumptions C10_prefix_end_none.

Theorem C10_prefix_bounds : forall p e k r, alpha p -> alpha k -> r < two64 -> prefix_end_opt p = Some e ->
  (has_prefix p k = true <->
   (bcmp (encode p 0) (encode k r) <> Gt /\ bcmp (encode k r) (encode e 0) = Lt)).
Proof. exact prefix_bounds. Qed.
Print Assumptions C10_prefix_bounds.

(* index-record value parser *)
Theorem C10_parse_live : forall r, r < two64 -> parse_revision (be64 r) = Some (r, false).
Proof. exact parse_revision_live. Qed.
Print Assumptions C10_parse_live.
Theorem C10_parse_deleted : forall r f, r < two64 -> parse_revision (be64 r ++ [f]) = Some (r, true).
Proof. exact parse_revision_deleted. Qed.
Print Assumptions C10_parse_deleted.
Theorem C10_parse_reject : forall b, length b <> 8%nat -> length b <> 9%nat -> parse_revision b = None.
Proof. exact parse_revision_reject. Qed.
Print Assumptions C10_parse_reject.

(* the executable oracle used on the implementation's outputs accepts every model output *)
Theorem C10_oracle_sound : forall c, c10_valid c -> c10_check c = true -> c10_oracle c = None.
Proof. exact c10_oracle_sound. Qed.
Print Assumptions C10_oracle_sound.

(* Decode never reaches its key slice on inputs shorter than magic + split byte + revision: the model's
   truncated subtraction there is unreachable, as the out-of-range slice is in the code *)
Theorem C10_decode_short : forall ik, (length ik < 13)%nat -> forall k r, decode ik <> DecOk k r.
Proof. exact decode_short. Qed.
Print Assumptions C10_decode_short.

(* prefixes with no end (empty, all 0xff) are inside the alphabet and outside C10_prefix_bounds: the bound
   computed for them encloses nothing. The one call site, getCompactBorders, only passes slash-terminated
   prefixes, which always have an end (case kind KBord ties that call site on every run) *)
Theorem C10_with_slash_has_end : forall p, prefix_end_opt (with_slash p) <> None.
Proof. exact with_slash_has_end. Qed.
Print Assumptions C10_with_slash_has_end.
Example C10_prefix_fallthrough_refuted :
  has_prefix [255] [255; 97] = true /\
  in_bounds (encode [255] 0) (encode (prefix_end [255]) 0) (encode [255; 97] 1) = false.
Proof. vm_compute. split; reflexivity. Qed.
Example C10_ex_prefix_end_opt : prefix_end_opt [47; 255] = Some [48] /\ prefix_end_opt [] = None /\ prefix_end_opt [255; 255] = None.
Proof. vm_compute. repeat split; reflexivity. Qed.
(* the hypotheses of C10_contiguous on concrete keys: a record between two records of /a is a record of /a *)
Example C10_ex_contiguous_hyps :
  bcmp (encode [47; 97] 0) (encode [47; 97] 7) <> Gt /\ bcmp (encode [47; 97] 7) (encode [47; 97] 9) <> Gt.
Proof. vm_compute. split; discriminate. Qed.

(* the check evaluates validity (64-bit revisions) itself, so every case that passes it on a run is covered *)
Theorem C10_oracle_sound_checked : forall c, c10_check c = true -> c10_oracle c = None.
Proof. exact c10_oracle_sound_checked. Qed.
Print Assumptions C10_oracle_sound_checked.

(* non-vacuity: the alphabet hypothesis is needed ("a#" vs "a": '#' = 35 < '$'), and is satisfiable *)
Example C10_alphabet_needed :
  bcmp (encode [97; 35] 0) (encode [97] 5) <> kr_cmp [97; 35] 0 [97] 5.
Proof. vm_compute. discriminate. Qed.
Example C10_alphabet_inhabited : alpha [47; 114; 101; 103; 255] /\ alpha [] /\ 18446744073709551615 < two64.
Proof. repeat split; repeat constructor. Qed.
Example C10_prefix_of_each_other :
  bcmp (encode [97] 18446744073709551615) (encode [97; 47; 98] 0) = Lt.
Proof. vm_compute. reflexivity. Qed.
