(* C03 — A read at a revision returns exactly the MVCC snapshot at that revision.
   Property theorems only: each is closed by `exact <lemma>` (or a vm_compute witness) and followed by
   Print Assumptions.  Model: Model/ReadSys.v (transcribed from range.go, scanner.go, receiver.go).
   Version stores: lists of (key, revision, value) strictly ascending in (key, revision) — the engine
   order of the encoded keys by C10 — over the key alphabet; revision 0 = index record.
   Client level: value = Some v (written) | None (deleted); engine level: the marker "tombstone" stands for None. *)
From KB Require Import Base.Cases Model.Coder Model.ReadSys Model.C03Cases
  Proofs.Coder Proofs.ReadSys Proofs.ReadSysSnap Proofs.ReadSysThm Proofs.ReadSysSpec Proofs.ReadSysC03.
Local Open Scope N_scope.

(* point read: Get(k, rv) returns the newest version <= rv of k (rv = 0: the newest stored version) unless it is a deletion *)
Theorem C03_get : forall (Vs : list (@vrec (option bytes))) cur k rv,
  wf_store Vs -> no_marker Vs -> alpha k -> rv < two64 ->
  get_model (raw_of (enc_store Vs)) cur k rv =
  match find_key k (snapshot_spec Vs (if rv =? 0 then max_u64 else rv)) with
  | Some (v, r) => GetResp (N.max cur r) (Some (v, r))
  | None => GetResp cur None
  end.
Proof. exact c03_get. Qed.
Print Assumptions C03_get.

(* range read with and without limit: the in-range snapshot, cut at the limit, `more` iff it was cut *)
Theorem C03_range : forall (Vs : list (@vrec (option bytes))) fv cur a b rev (limit : Z),
  wf_store Vs -> no_marker Vs -> alpha a -> alpha b -> bcmp a b = Lt ->
  floor_check fv (eff rev cur) = FOk -> (0 <= limit < max_i64)%Z ->
  let S := in_range a b (snapshot_spec Vs (eff rev cur)) in
  list_model (raw_of (enc_store Vs)) fv single_part cur a b rev limit =
  if (0 <? limit)%Z then LResp cur (firstn (Z.to_nat limit) S) (limit <? Z.of_nat (length S))%Z
  else LResp cur S false.
Proof. exact c03_range. Qed.
Print Assumptions C03_range.

Theorem C03_count : forall (Vs : list (@vrec (option bytes))) fv cur a b,
  wf_store Vs -> no_marker Vs -> alpha a -> alpha b -> bcmp a b = Lt -> floor_check fv cur = FOk ->
  count_model (raw_of (enc_store Vs)) fv single_part true cur a b =
  CResp cur (N.of_nat (length (in_range a b (snapshot_spec Vs cur)))).
Proof. exact c03_count. Qed.
Print Assumptions C03_count.

(* the worker loop itself: on any sorted store its output is the snapshot (engine level) *)
Theorem C03_worker_snapshot : forall R (V : list (@vrec bytes)), StronglySorted vr_lt V -> wrun_top R V = snapshot V R.
Proof. exact wrun_top_snapshot. Qed.
Print Assumptions C03_worker_snapshot.

Theorem C03_worker_run : forall R (V : list (@vrec bytes)) rc, recs_ok V -> unlimited rc ->
  worker_run R (raw_of V) rc = WROk (N.of_nat (length (wrun_top R V))) (rcv_flush (appends (rcv_reset rc) (wrun_top R V))).
Proof. exact worker_run_unlimited. Qed.
Print Assumptions C03_worker_run.

Theorem C03_worker_run_limited : forall R (V : list (@vrec bytes)) (l : Z) res0, (0 < l)%Z -> recs_ok V ->
  exists n rc, worker_run R (raw_of V) (RCommon l res0) = WROk n rc /\ rcv_result rc = firstn (Z.to_nat l) (wrun_top R V).
Proof. exact worker_run_limited. Qed.
Print Assumptions C03_worker_run_limited.

(* the same answers whenever asked again: later versions (revision > R) and what a compaction at a
   floor <= R removes (ReadSys.compacted) do not change Get / List / Count at R *)
Theorem C03_snapshot_stable : forall (V V' : list (@vrec bytes)) R,
  wf_store V -> wf_store V' -> later_state V V' R -> snapshot V' R = snapshot V R.
Proof. exact snapshot_later. Qed.
Print Assumptions C03_snapshot_stable.

Theorem C03_stable : forall (V V' : list (@vrec bytes)) R,
  wf_store V -> wf_store V' -> later_state V V' R -> 0 < R -> R < two64 ->
  forall fv fv' cur cur' a b (limit : Z) k,
    alpha a -> alpha b -> bcmp a b = Lt -> alpha k ->
    floor_check fv R = FOk -> floor_check fv' R = FOk -> (0 <= limit < max_i64)%Z ->
    list_payload (list_model (raw_of V') fv' single_part cur' a b R limit) = list_payload (list_model (raw_of V) fv single_part cur a b R limit)
    /\ get_payload (get_model (raw_of V') cur' k R) = get_payload (get_model (raw_of V) cur k R)
    /\ count_payload (count_model (raw_of V') fv' single_part true R a b) = count_payload (count_model (raw_of V) fv single_part true R a b).
Proof. exact c03_stable. Qed.
Print Assumptions C03_stable.

(* with no live value equal to the marker, the engine-level snapshot is the client-level one *)
Theorem C03_snapshot_client : forall (Vs : list (@vrec (option bytes))) R, no_marker Vs -> snapshot (enc_store Vs) R = snapshot_spec Vs R.
Proof. exact snapshot_enc. Qed.
Print Assumptions C03_snapshot_client.

(* a written value is read back byte for byte — unless it equals the reserved marker *)
Theorem C03_bytes : forall (V : list (@vrec bytes)) cur k r v R, wf_store V -> alpha k -> In (k, r, v) V -> 0 < r -> v <> tombstone ->
  r <= R -> R < two64 -> (forall y, In y V -> vr_key y = k -> vr_rev y <= R -> vr_rev y <= r) ->
  get_model (raw_of V) cur k R = GetResp (N.max cur r) (Some (v, r)).
Proof. exact get_reads_back. Qed.
Print Assumptions C03_bytes.

(* ---------- the executable oracle ---------- *)
(* full statement (not proved as one lemma): a case the model reproduces entirely (responses from the dump,
   dump = layout of the history up to permitted compaction removals) is never an unlisted violation *)
Definition C03_oracle_sound_full_statement : Prop :=
  forall c, c03_check c = true -> c03_oracle c <> Some 0.

(* proved part, read level: on the engine image of any well-formed client history without marker values the
   oracle accepts what the model answers to Get (explicit revision), List and Count *)
Theorem C03_oracle_sound_partial : forall Vs compat fv cur floor q, wf_store Vs -> no_marker Vs -> read_valid fv cur q ->
  read_is_model Vs fv cur q -> read_verdict Vs compat cur floor q = None.
Proof. exact c03_read_verdict_none. Qed.
Print Assumptions C03_oracle_sound_partial.

(* ---------- findings ---------- *)
Definition w_a : bytes := [47; 114; 47; 97].   (* "/r/a" *)
Definition w_b : bytes := [47; 114; 47; 98].   (* "/r/b" *)

Lemma w_store_wf {A} (x y : A) : wf_store [(w_a, 0, x); (w_a, 101, y)].
Proof.
  split.
  - repeat constructor.
  - repeat constructor; cbn; unfold two64; lia.
Qed.

(* finding C03-F1: Create(k, "tombstone") is acknowledged, the value is never read back *)
Theorem C03_bytes_full_refuted :
  exists (Vs : list (@vrec (option bytes))) k r v cur,
    wf_store Vs /\ alpha k /\ In (k, r, Some v) Vs /\ 0 < r /\ v <> [] /\
    (forall y, In y Vs -> vr_key y = k -> vr_rev y <= r) /\
    get_model (raw_of (enc_store Vs)) cur k r = GetResp cur None /\
    find_key k (snapshot_spec Vs r) = Some (v, r).
Proof.
  exists [(w_a, 0, Some (be64 101)); (w_a, 101, Some tombstone)], w_a, 101, tombstone, 101.
  split; [apply w_store_wf|]. split; [repeat constructor|]. split; [right; left; reflexivity|].
  split; [lia|]. split; [discriminate|]. split.
  - intros y [<-|[<-|[]]] _; cbn; lia.
  - split; vm_compute; reflexivity.
Qed.
Print Assumptions C03_bytes_full_refuted.

(* finding C03-F2: a range bound outside the key alphabet (Kubernetes' continue key k ++ "\x00"):
   the key below the start bound is returned *)
Theorem C03_range_bounds_refuted :
  exists (Vs : list (@vrec (option bytes))) a b cur,
    wf_store Vs /\ no_marker Vs /\ bcmp a b = Lt /\ alpha b /\ ~ alpha a /\
    in_range a b (snapshot_spec Vs cur) = [] /\
    list_model (raw_of (enc_store Vs)) None single_part cur a b 0 0 = LResp cur [(w_a, [120], 101)] false.
Proof.
  exists [(w_a, 0, Some (be64 101)); (w_a, 101, Some [120])], (w_a ++ [0]), w_b, 101.
  split; [apply w_store_wf|]. split; [repeat constructor; discriminate|]. split; [reflexivity|].
  split; [repeat constructor|]. split.
  - intros H. unfold alpha in H. rewrite Forall_forall in H. specialize (H 0 ltac:(cbn; tauto)). lia.
  - split; vm_compute; reflexivity.
Qed.
Print Assumptions C03_range_bounds_refuted.

(* ---------- non-vacuity ---------- *)
Definition ex_store : list (@vrec (option bytes)) :=
  [(w_a, 0, Some (be64 103)); (w_a, 101, Some [120]); (w_a, 103, Some [121]);
   (w_a ++ [47; 98], 0, Some (be64 104 ++ [0])); (w_a ++ [47; 98], 102, Some [122]); (w_a ++ [47; 98], 104, None);
   (w_b, 0, Some (be64 105)); (w_b, 105, Some [255])].

Example C03_hypotheses_inhabited :
  wf_store ex_store /\ no_marker ex_store /\ alpha w_a /\ alpha w_b /\ bcmp w_a w_b = Lt /\ floor_check (Some (be64 102)) (eff 103 105) = FOk.
Proof.
  split.
  { split; [repeat constructor|]. repeat constructor; cbn; unfold two64; lia. }
  split; [repeat constructor; discriminate|]. repeat split; repeat constructor.
Qed.

(* three keys, one deleted at 104: the snapshot at 103 has /r/a@103 and /r/a/b@102, at 105 /r/a and /r/b *)
Example C03_example_snapshots :
  snapshot_spec ex_store 103 = [(w_a, [121], 103); (w_a ++ [47; 98], [122], 102)] /\
  snapshot_spec ex_store 105 = [(w_a, [121], 103); (w_b, [255], 105)] /\
  list_model (raw_of (enc_store ex_store)) (Some (be64 102)) single_part 105 w_a w_b 103 1
    = LResp 105 [(w_a, [121], 103)] true.
Proof. repeat split; vm_compute; reflexivity. Qed.

(* later_state is inhabited both ways: a version added above R, and a compaction at F <= R *)
Definition ex_small : list (@vrec bytes) := [(w_a, 0, be64 103); (w_a, 101, [120]); (w_a, 103, [121])].

Example C03_later_inhabited :
  later_state ex_small (ex_small ++ [(w_b, 106, [1])]) 105 /\
  later_state ex_small [(w_a, 0, be64 103); (w_a, 103, [121])] 103.
Proof.
  unfold ex_small. split.
  - left. split.
    + intros x Hx. apply in_or_app. left; exact Hx.
    + intros x Hx. apply in_app_or in Hx as [Hx|[<-|[]]]; [left; exact Hx|right; unfold vr_rev; cbn [fst snd]; lia].
  - right. exists 103. split; [|lia]. split; [|split].
    + intros x [<-|[<-|[]]]; cbn; tauto.
    + intros x [<-|[<-|[<-|[]]]] N; try (exfalso; apply N; cbn; tauto).
      right. unfold vr_rev, vr_key, vr_val; cbn [fst snd]. split; [lia|]. right.
      exists (w_a, 103, [121]). unfold vr_rev, vr_key; cbn [fst snd In]. repeat split; try lia. tauto.
    + intros x y [<-|[<-|[<-|[]]]] Nx Px [<-|[<-|[<-|[]]]] Ky Py Lt N'; unfold vr_rev in *; cbn [fst snd] in *; try lia;
        try (apply Nx; cbn; tauto).
Qed.
