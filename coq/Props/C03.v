(* C03 — A read at a revision returns exactly the MVCC snapshot at that revision.
   Property theorems only: each is closed by `exact <lemma>` (or a vm_compute witness) and followed by
   Print Assumptions.  Model: Model/ReadSys.v (transcribed from range.go, scanner.go, receiver.go).
   Version stores: lists of (key, revision, value) strictly ascending in (key, revision) — the engine
   order of the encoded keys by C10 — over the key alphabet; revision 0 = index record.
   Client level: value = Some v (written) | None (deleted); engine level: the marker "tombstone" stands for None. *)
From KB Require Import Model.ReadRetry Proofs.ReadRetry.
From KB Require Import Base.Cases Model.Coder Model.ReadSys Model.C03Cases Model.C13Cases Model.ReadValid
  Proofs.Coder Proofs.ReadSys Proofs.ReadSysSnap Proofs.ReadSysThm Proofs.ReadSysSpec Proofs.ReadSysPart Proofs.ReadSysC03 Proofs.ReadSysC13 Proofs.ReadSysC13b Proofs.ReadSysC03b Proofs.ReadValid.
Local Open Scope N_scope.

(* point read: Get(k, rv) returns the newest version <= rv of k (rv = 0: the newest stored version) unless it is a deletion *)
Theorem C03_get : forall (Vs : list (@vrec (option bytes))) cur k rv,
  wf_store Vs -> no_marker Vs -> alpha k -> rv < two64 ->
  get_model (raw_of (enc_store Vs)) cur k rv =
  match find_key k (snapshot_spec Vs (if rv =? 0 then max_u64 else rv)) with
  | Some (v, r) => GetResp (N.max cur r) (Some (v, r))
  | None => GetResp cur None
  end.
Proof. exact c03_get. Qed.
Print Assumptions C03_get.

(* Get with revision 0 reads the newest STORED version (range.go:92-94); it is a read at the reported revision cur exactly
   when nothing above cur is stored (Example C03_get_zero_reads_unpublished: otherwise it differs from List at 0) *)
Theorem C03_get_current : forall (V : list (@vrec bytes)) cur k, wf_store V -> alpha k ->
  (forall x, In x V -> vr_rev x <= cur) -> cur < two64 ->
  get_model (raw_of V) cur k 0 =
  match find_key k (snapshot V cur) with
  | Some (v, r) => GetResp (N.max cur r) (Some (v, r))
  | None => GetResp cur None
  end.
Proof. exact get_model_current. Qed.
Print Assumptions C03_get_current.

(* the snapshot lists every key at most once, in key order (what makes find_key's "first match" the only match) *)
Theorem C03_snapshot_key_sorted : forall (V : list (@vrec bytes)) R, StronglySorted olt (snapshot V R).
Proof. exact snapshot_sorted. Qed.
Print Assumptions C03_snapshot_key_sorted.

(* range read with and without limit: the in-range snapshot, cut at the limit, `more` iff it was cut *)
Theorem C03_range : forall (Vs : list (@vrec (option bytes))) fv cur a b rev (limit : Z),
  wf_store Vs -> no_marker Vs -> alpha a -> alpha b -> bcmp a b = Lt ->
  floor_check fv (eff rev cur) = FOk -> (0 <= limit < max_i64)%Z ->
  let S := in_range a b (snapshot_spec Vs (eff rev cur)) in
  list_model (raw_of (enc_store Vs)) fv single_part cur a b rev limit =
  if (0 <? limit)%Z then LResp cur (firstn (Z.to_nat limit) S) (limit <? Z.of_nat (length S))%Z
  else LResp cur S false.
Proof. exact c03_range. Qed.
Print Assumptions C03_range.

Theorem C03_count : forall (Vs : list (@vrec (option bytes))) fv cur a b,
  wf_store Vs -> no_marker Vs -> alpha a -> alpha b -> bcmp a b = Lt -> floor_check fv cur = FOk ->
  count_model (raw_of (enc_store Vs)) fv single_part true cur a b =
  CResp cur (N.of_nat (length (in_range a b (snapshot_spec Vs cur)))).
Proof. exact c03_count. Qed.
Print Assumptions C03_count.

(* the limited List under an engine-iterator fault (rangeWithLimit calls worker.run once, without runWithBackoffRetry;
   Model/ReadRetry.v range_limited_fault / list_limited_fault, fault = Some n: the (n+1)-th Next fails): for every
   store and every fault position the response is the fault-free response or the iterator error (class 4) — never
   a prefix of the answer, never a wrong `more`; on a well-formed store: the specification's cut snapshot or the error *)
Theorem C03_limited_fault_all_or_error : forall s fv parts cur a b rev (limit : Z) fault, (0 < limit < max_i64)%Z ->
  list_limited_fault s fv cur a b rev limit fault = LErr 4 \/
  list_limited_fault s fv cur a b rev limit fault = list_model s fv parts cur a b rev limit.
Proof. exact list_limited_fault_all_or_error. Qed.
Print Assumptions C03_limited_fault_all_or_error.

Theorem C03_limited_fault : forall (Vs : list (@vrec (option bytes))) fv cur a b rev (limit : Z) fault,
  wf_store Vs -> no_marker Vs -> alpha a -> alpha b -> bcmp a b = Lt ->
  floor_check fv (eff rev cur) = FOk -> (0 < limit < max_i64)%Z ->
  let S := in_range a b (snapshot_spec Vs (eff rev cur)) in
  let out := list_limited_fault (raw_of (enc_store Vs)) fv cur a b rev limit fault in
  out = LErr 4 \/ out = LResp cur (firstn (Z.to_nat limit) S) (limit <? Z.of_nat (length S))%Z.
Proof. exact list_limited_fault_spec. Qed.
Print Assumptions C03_limited_fault.

(* the worker loop itself: on any sorted store its output is the snapshot (engine level) *)
Theorem C03_worker_snapshot : forall R (V : list (@vrec bytes)), StronglySorted vr_lt V -> wrun_top R V = snapshot V R.
Proof. exact wrun_top_snapshot. Qed.
Print Assumptions C03_worker_snapshot.

Theorem C03_worker_run : forall R (V : list (@vrec bytes)) rc, recs_ok V -> unlimited rc ->
  worker_run R (raw_of V) rc = WROk (N.of_nat (length (wrun_top R V))) (rcv_flush (appends (rcv_reset rc) (wrun_top R V))).
Proof. exact worker_run_unlimited. Qed.
Print Assumptions C03_worker_run.

Theorem C03_worker_run_limited : forall R (V : list (@vrec bytes)) (l : Z) res0, (0 < l)%Z -> recs_ok V ->
  exists n rc, worker_run R (raw_of V) (RCommon l res0) = WROk n rc /\ rcv_result rc = firstn (Z.to_nat l) (wrun_top R V).
Proof. exact worker_run_limited. Qed.
Print Assumptions C03_worker_run_limited.

(* the same answers whenever asked again: later versions (revision > R) and what a compaction at a
   floor <= R removes (ReadSys.compacted) do not change Get / List / Count at R *)
Theorem C03_snapshot_stable : forall (V V' : list (@vrec bytes)) R,
  wf_store V -> wf_store V' -> later_state V V' R -> snapshot V' R = snapshot V R.
Proof. exact snapshot_later. Qed.
Print Assumptions C03_snapshot_stable.

Theorem C03_stable : forall (V V' : list (@vrec bytes)) R,
  wf_store V -> wf_store V' -> later_state V V' R -> 0 < R -> R < two64 ->
  forall fv fv' cur cur' a b (limit : Z) k,
    alpha a -> alpha b -> bcmp a b = Lt -> alpha k ->
    floor_check fv R = FOk -> floor_check fv' R = FOk -> (0 <= limit < max_i64)%Z ->
    list_payload (list_model (raw_of V') fv' single_part cur' a b R limit) = list_payload (list_model (raw_of V) fv single_part cur a b R limit)
    /\ get_payload (get_model (raw_of V') cur' k R) = get_payload (get_model (raw_of V) cur k R)
    /\ count_payload (count_model (raw_of V') fv' single_part true R a b) = count_payload (count_model (raw_of V) fv single_part true R a b).
Proof. exact c03_stable. Qed.
Print Assumptions C03_stable.

(* with no live value equal to the marker, the engine-level snapshot is the client-level one *)
Theorem C03_snapshot_client : forall (Vs : list (@vrec (option bytes))) R, no_marker Vs -> snapshot (enc_store Vs) R = snapshot_spec Vs R.
Proof. exact snapshot_enc. Qed.
Print Assumptions C03_snapshot_client.

(* a written value is read back byte for byte — unless it equals the reserved marker *)
Theorem C03_bytes : forall (V : list (@vrec bytes)) cur k r v R, wf_store V -> alpha k -> In (k, r, v) V -> 0 < r -> v <> tombstone ->
  r <= R -> R < two64 -> (forall y, In y V -> vr_key y = k -> vr_rev y <= R -> vr_rev y <= r) ->
  get_model (raw_of V) cur k R = GetResp (N.max cur r) (Some (v, r)).
Proof. exact get_reads_back. Qed.
Print Assumptions C03_bytes.

(* ---------- the executable check and oracle ---------- *)
(* the executable layout test of a dump against the acknowledged history implies the removal rule of C03_stable
   (index records aside), and hence: the snapshot of the dump at any revision not below the floor is the
   client-level snapshot of the history, marker values read as deletions *)
Theorem C03_layout_compacted : forall d hv F, hist_pos hv -> compact_layout_ok d hv F = true ->
  dump_wf d = true /\ compacted (enc_store hv) (positive (versions_of (data_of d))) F.
Proof. exact layout_compacted. Qed.
Print Assumptions C03_layout_compacted.

Theorem C03_dump_snapshot : forall d hv F R, hist_pos hv -> functional hv -> compact_layout_ok d hv F = true -> F <= R ->
  snapshot (versions_of (data_of d)) R = snapshot_spec (marker_as_deletion hv) R.
Proof. exact dump_snapshot. Qed.
Print Assumptions C03_dump_snapshot.

(* only records under the data prefix are iterated between two internal keys, forwards (List, Count, streams) and
   backwards (the point read) *)
Theorem C03_iter_data : forall s st en, has_prefix magic st = true -> has_prefix magic en = true -> iter s st en = iter (data_of s) st en.
Proof. exact iter_data_any. Qed.
Print Assumptions C03_iter_data.

(* a single-partition stream the model reproduces: well-shaped, key-values exactly the in-range snapshot in key order *)
Theorem C03_stream_single : forall d fv cur a b rv out, dump_wf d = true -> alpha a -> alpha b -> bcmp a b = Lt ->
  floor_check fv (eff rv cur) = FOk ->
  stream_check (stream_model d fv single_part cur (encode a 0) (encode b 0) rv) out = true ->
  stream_shape (eff rv cur) out = true /\ stream_kvs out = in_range a b (snapshot (versions_of (data_of d)) (eff rv cur)).
Proof. exact stream_single_dump. Qed.
Print Assumptions C03_stream_single.

(* one read of one phase: if the model reproduces the response from the dump, the response is the function of the
   history's snapshot that the property prescribes (Get incl. revision 0 when nothing above cur is stored, List with
   and without limit, Count, ListByStream, and the etcd Range response shaped by backendShim.List: kvs, More, Count) *)
Theorem C03_read_char : forall ck compat srt parts ph hv F, (srt = false -> parts = single_part) -> hist_pos hv -> functional hv ->
  compact_layout_ok (ph_dump ph) hv F = true -> floor_rec_ok ck (ph_dump ph) F = true -> F < two64 -> ph_cur ph < two64 ->
  forall q, read_alpha q -> read_parts_ok parts q -> in_scope compat hv (ph_cur ph) F q = true -> read_check ck compat parts ph q = true ->
  read_char srt (fun R => snapshot_spec (marker_as_deletion hv) R) (ph_cur ph) q.
Proof. exact read_char_of_check. Qed.
Print Assumptions C03_read_char.

Theorem C03_read_char_meets : forall srt hv' cur q, read_char srt (snapshot_spec hv') cur q -> read_meets srt in_range hv' cur q = true.
Proof. exact char_meets. Qed.
Print Assumptions C03_read_char_meets.

(* the same read in two consecutive phases: characterised responses over snapshots that agree up to the earlier
   phase's reported revision give the same answer *)
Theorem C03_stable_reads : forall srt compat hv1 hv2 cur1 cur2 Fp F2 T1 T2, Fp <= F2 -> (forall R, R <= cur1 -> T2 R = T1 R) ->
  forall r1 r2,
  (forall q, In q r1 -> in_scope compat hv1 cur1 Fp q = true -> read_char srt T1 cur1 q) ->
  (forall q, In q r2 -> in_scope compat hv2 cur2 F2 q = true -> read_char srt T2 cur2 q) ->
  stable_verdict srt compat hv1 hv2 cur1 cur2 F2 r1 r2 = true.
Proof. exact stable_ok. Qed.
Print Assumptions C03_stable_reads.

(* the whole case, by induction over the phases with the running history and floor: a case the model reproduces
   entirely is never an unlisted violation (None, or the signature of finding C03-F1 / C03-F2).
   c03_valid: acknowledged writes have positive, pairwise distinct (key, revision); writes acknowledged after a
   phase have revisions above the revision it reported; 64-bit floors and revisions; keys and range bounds of the
   reads over the alphabet; the engine's recorded answer for the range of every read is a tiling (always so for
   an engine reporting one partition) — facts the boolean check does not test.  The engine's partition function
   is the recorded one (c_calls), as in C13 *)
Theorem C03_oracle_sound : forall c, c03_valid c -> c03_check c = true -> c03_oracle c <> Some 0.
Proof. exact c03_oracle_sound. Qed.
Print Assumptions C03_oracle_sound.

(* the engine assumption as a named hypothesis (engine_presents_acknowledged: the dump of the phase — a snapshot scan
   after the acknowledgements — holds the layout of the acknowledged history): under it every in-scope read the model
   reproduces meets the snapshot of the history, whatever happened below the adapter in between.  The held-secondary-
   commit and late-timestamp cases of the driver are ordinary cases of this theorem: an acknowledged, published write
   belongs to the snapshot. *)
Theorem C03_acknowledged_writes_read : forall ck compat srt parts ph hv F q, (srt = false -> parts = single_part) ->
  hist_pos hv -> functional hv -> engine_presents_acknowledged (ph_dump ph) hv F -> floor_rec_ok ck (ph_dump ph) F = true ->
  F < two64 -> ph_cur ph < two64 -> read_alpha q -> read_parts_ok parts q -> in_scope compat hv (ph_cur ph) F q = true ->
  read_check ck compat parts ph q = true ->
  read_meets srt in_range (marker_as_deletion hv) (ph_cur ph) q = true.
Proof. exact read_meets_of_check. Qed.
Print Assumptions C03_acknowledged_writes_read.

(* validity is decidable, and it is what every shard evaluates: the shards' check function is c03_check_valid
   (= c03_check && (c03_validb || c03_exempt)), so every evaluated case is either covered by C03_oracle_sound or
   carries the signature of finding C03-F2 (a key or bound outside the alphabet: c03_exempt) *)
Theorem C03_validb_sound : forall c, c03_validb c = true -> c03_valid c.
Proof. exact c03_validb_spec. Qed.
Print Assumptions C03_validb_sound.

Theorem C03_check_valid_sound : forall c, c03_check_valid c = true -> c03_exempt c = false -> c03_oracle c <> Some 0.
Proof. exact c03_check_valid_sound. Qed.
Print Assumptions C03_check_valid_sound.

(* without marker values in the acknowledged history (c03_nomarkerb, decidable) the verdict is None outright: Some 1
   can only be the signature of finding C03-F1 *)
Theorem C03_oracle_sound_none : forall c, c03_valid c -> c03_nomarkerb c = true -> c03_check c = true -> c03_oracle c = None.
Proof. exact c03_oracle_sound_none. Qed.
Print Assumptions C03_oracle_sound_none.

Theorem C03_check_valid_none : forall c, c03_check_valid c = true -> c03_exempt c = false -> c03_nomarkerb c = true -> c03_oracle c = None.
Proof. exact c03_check_valid_none. Qed.
Print Assumptions C03_check_valid_none.

(* read level, without marker values: on the engine image of any well-formed client history without marker values the
   oracle accepts what the model answers to Get (explicit revision), List and Count *)
Theorem C03_read_verdict_ideal_layout : forall Vs compat fv cur floor q, wf_store Vs -> no_marker Vs -> read_valid fv cur q ->
  read_is_model Vs fv cur q -> read_verdict false Vs compat cur floor q = None.
Proof. exact c03_read_verdict_none. Qed.
Print Assumptions C03_read_verdict_ideal_layout.

(* ---------- findings ---------- *)
Definition w_a : bytes := [47; 114; 47; 97].   (* "/r/a" *)
Definition w_b : bytes := [47; 114; 47; 98].   (* "/r/b" *)

Lemma w_store_wf {A} (x y : A) : wf_store [(w_a, 0, x); (w_a, 101, y)].
Proof.
  split.
  - repeat constructor.
  - repeat constructor; cbn; unfold two64; lia.
Qed.

(* finding C03-F1: Create(k, "tombstone") is acknowledged, the value is never read back *)
Theorem C03_bytes_full_refuted :
  exists (Vs : list (@vrec (option bytes))) k r v cur,
    wf_store Vs /\ alpha k /\ In (k, r, Some v) Vs /\ 0 < r /\ v <> [] /\
    (forall y, In y Vs -> vr_key y = k -> vr_rev y <= r) /\
    get_model (raw_of (enc_store Vs)) cur k r = GetResp cur None /\
    find_key k (snapshot_spec Vs r) = Some (v, r).
Proof.
  exists [(w_a, 0, Some (be64 101)); (w_a, 101, Some tombstone)], w_a, 101, tombstone, 101.
  split; [apply w_store_wf|]. split; [repeat constructor|]. split; [right; left; reflexivity|].
  split; [lia|]. split; [discriminate|]. split.
  - intros y [<-|[<-|[]]] _; cbn; lia.
  - split; vm_compute; reflexivity.
Qed.
Print Assumptions C03_bytes_full_refuted.

(* finding C03-F2: a range bound outside the key alphabet (Kubernetes' continue key k ++ "\x00"):
   the key below the start bound is returned *)
Theorem C03_range_bounds_refuted :
  exists (Vs : list (@vrec (option bytes))) a b cur,
    wf_store Vs /\ no_marker Vs /\ bcmp a b = Lt /\ alpha b /\ ~ alpha a /\
    in_range a b (snapshot_spec Vs cur) = [] /\
    list_model (raw_of (enc_store Vs)) None single_part cur a b 0 0 = LResp cur [(w_a, [120], 101)] false.
Proof.
  exists [(w_a, 0, Some (be64 101)); (w_a, 101, Some [120])], (w_a ++ [0]), w_b, 101.
  split; [apply w_store_wf|]. split; [repeat constructor; discriminate|]. split; [reflexivity|].
  split; [repeat constructor|]. split.
  - intros H. unfold alpha in H. rewrite Forall_forall in H. specialize (H 0 ltac:(cbn; tauto)). lia.
  - split; vm_compute; reflexivity.
Qed.
Print Assumptions C03_range_bounds_refuted.

(* ---------- non-vacuity ---------- *)
Definition ex_store : list (@vrec (option bytes)) :=
  [(w_a, 0, Some (be64 103)); (w_a, 101, Some [120]); (w_a, 103, Some [121]);
   (w_a ++ [47; 98], 0, Some (be64 104 ++ [0])); (w_a ++ [47; 98], 102, Some [122]); (w_a ++ [47; 98], 104, None);
   (w_b, 0, Some (be64 105)); (w_b, 105, Some [255])].

Example C03_hypotheses_inhabited :
  wf_store ex_store /\ no_marker ex_store /\ alpha w_a /\ alpha w_b /\ bcmp w_a w_b = Lt /\ floor_check (Some (be64 102)) (eff 103 105) = FOk.
Proof.
  split.
  { split; [repeat constructor|]. repeat constructor; cbn; unfold two64; lia. }
  split; [repeat constructor; discriminate|]. repeat split; repeat constructor.
Qed.

(* three keys, one deleted at 104: the snapshot at 103 has /r/a@103 and /r/a/b@102, at 105 /r/a and /r/b *)
Example C03_example_snapshots :
  snapshot_spec ex_store 103 = [(w_a, [121], 103); (w_a ++ [47; 98], [122], 102)] /\
  snapshot_spec ex_store 105 = [(w_a, [121], 103); (w_b, [255], 105)] /\
  list_model (raw_of (enc_store ex_store)) (Some (be64 102)) single_part 105 w_a w_b 103 1
    = LResp 105 [(w_a, [121], 103)] true.
Proof. repeat split; vm_compute; reflexivity. Qed.

(* both outcomes of C03_limited_fault occur on ex_store (limit 1, read at 103; the worker reads limit + 1 = 2 results:
   /r/a@103 is appended when the index record of /r/a/b is met, /r/a/b@102 when that of /r/b is met, i.e. after 7
   records): a fault at Next 1..7 is an error with no data, a fault at Next 8 or later is never reached *)
Example C03_limited_fault_example :
  let L := list_limited_fault (raw_of (enc_store ex_store)) (Some (be64 102)) 105 w_a w_b 103 1 in
  L None = LResp 105 [(w_a, [121], 103)] true /\
  L (Some 0%nat) = LErr 4 /\ L (Some 3%nat) = LErr 4 /\ L (Some 6%nat) = LErr 4 /\
  L (Some 7%nat) = LResp 105 [(w_a, [121], 103)] true /\ L (Some 9%nat) = LResp 105 [(w_a, [121], 103)] true.
Proof. repeat split; vm_compute; reflexivity. Qed.

(* later_state is inhabited both ways: a version added above R, and a compaction at F <= R *)
Definition ex_small : list (@vrec bytes) := [(w_a, 0, be64 103); (w_a, 101, [120]); (w_a, 103, [121])].

Example C03_later_inhabited :
  later_state ex_small (ex_small ++ [(w_b, 106, [1])]) 105 /\
  later_state ex_small [(w_a, 0, be64 103); (w_a, 103, [121])] 103.
Proof.
  unfold ex_small. split.
  - left. split.
    + intros x Hx. apply in_or_app. left; exact Hx.
    + intros x Hx. apply in_app_or in Hx as [Hx|[<-|[]]]; [left; exact Hx|right; unfold vr_rev; cbn [fst snd]; lia].
  - right. exists 103. split; [|lia]. split; [|split].
    + intros x [<-|[<-|[]]]; cbn; tauto.
    + intros x [<-|[<-|[<-|[]]]] N; try (exfalso; apply N; cbn; tauto).
      right. unfold vr_rev, vr_key, vr_val; cbn [fst snd]. split; [lia|]. right.
      exists (w_a, 103, [121]). unfold vr_rev, vr_key; cbn [fst snd In]. repeat split; try lia. tauto.
    + intros x y [<-|[<-|[<-|[]]]] Nx Px [<-|[<-|[<-|[]]]] Ky Py Lt N'; unfold vr_rev in *; cbn [fst snd] in *; try lia;
        try (apply Nx; cbn; tauto).
Qed.

(* non-vacuity of C03_oracle_sound: a two-phase case (create, create, update, delete; then a create and a compaction at
   103) whose responses are computed by the model is valid and passes the check *)
Definition x_ck : bytes := [47; 114; 47; 99; 107].
Definition x_dump1 : raw_store :=
  raw_of [(w_a, 0, be64 103); (w_a, 101, [120]); (w_a, 103, [122]); (w_b, 0, be64 104 ++ [0]); (w_b, 102, [121]); (w_b, 104, tombstone)].
Definition x_dump2 : raw_store :=
  (x_ck, be64 103) :: raw_of [(w_a, 0, be64 103); (w_a, 103, [122]); (w_b, 0, be64 105); (w_b, 102, [121]); (w_b, 104, tombstone); (w_b, 105, [119])].
Definition x_stream (r : stream_res) : list smsg := match r with StOk pp t => concat pp ++ [t] | StPanic => [] end.
Definition x_reads (d : raw_store) (cur : N) : list c03_read :=
  let fv := lookup x_ck d in
  let lo := [47; 114; 47] in let hi := [47; 114; 48] in
  [QGet w_a 101 (get_model d cur w_a 101); QGet w_b 103 (get_model d cur w_b 103); QGet w_a 0 (get_model d cur w_a 0);
   QList lo hi 103 1 (list_model d fv single_part cur lo hi 103 1); QList lo hi 0 0 (list_model d fv single_part cur lo hi 0 0);
   QCount lo hi (count_model d fv single_part true cur lo hi);
   QStream lo hi 103 (x_stream (stream_model d fv single_part cur (encode lo 0) (encode hi 0) 103));
   QEtcd lo hi 103 2 (etcd_shape (list_model d fv single_part cur lo hi 103 2)); QEtcd lo hi 103 1 (etcd_shape (list_model d fv single_part cur lo hi 103 1))].
Definition x_case : c03_case :=
  mk_c03 x_ck true []
    [mk_phase [WCreate w_a [120] 101 true; WCreate w_b [121] 102 true; WUpdate w_a [122] 101 103 true; WDelete w_b 102 104 true;
               WCreate w_a [1] 105 false] 0 x_dump1 104 (x_reads x_dump1 104);
     mk_phase [WCreate w_b [119] 105 true] 103 x_dump2 105 (x_reads x_dump2 105)].

Example C03_check_valid_inhabited : c03_check_valid x_case = true /\ c03_validb x_case = true /\ c03_exempt x_case = false /\ c03_nomarkerb x_case = true.
Proof. repeat split; vm_compute; reflexivity. Qed.

Example C03_oracle_sound_inhabited : c03_valid x_case /\ c03_check x_case = true /\ c03_oracle x_case = None.
Proof.
  split; [|split; vm_compute; reflexivity].
  assert (FN : forall l : list (@vrec (option bytes)), NoDup (map (fun x => (vr_key x, vr_rev x)) l) -> functional l).
  { intros l ND x y Hx Hy Ek Er. destruct x as [[k r] a], y as [[k' r'] a']. cbn in Ek, Er. subst k' r'.
    induction l as [|z t IH]; [destruct Hx|]. inversion ND as [|? ? NI NDt]; subst.
    destruct Hx as [->|Hx], Hy as [E|Hy].
    - exact E.
    - exfalso. apply NI. apply (in_map (fun x => (vr_key x, vr_rev x)) _ _ Hy).
    - exfalso. apply NI. subst z. apply (in_map (fun x => (vr_key x, vr_rev x)) _ _ Hx).
    - apply IH; assumption. }
  assert (RA : forall d cur, Forall read_alpha (x_reads d cur)).
  { intros d cur. repeat constructor; cbn; unfold two64; lia. }
  assert (PK : forall d cur, Forall (read_parts_ok single_part) (x_reads d cur)).
  { intros d cur. repeat constructor; cbn; intros L; apply single_valid; try exact L; repeat constructor. }
  unfold c03_valid, x_case. change (c03_parts _) with single_part. cbn [c_phases phases_valid ph_ops ph_floor ph_cur ph_reads app].
  repeat split; try apply RA; try apply PK; try (vm_compute; reflexivity); try (repeat constructor; cbn; lia).
  - apply FN. vm_compute. repeat constructor; cbn; intuition discriminate.
  - apply FN. vm_compute. repeat constructor; cbn; intuition discriminate.
Qed.

Example C03_engine_assumption_inhabited :
  engine_presents_acknowledged x_dump1
    (hist_versions [WCreate w_a [120] 101 true; WCreate w_b [121] 102 true; WUpdate w_a [122] 101 103 true; WDelete w_b 102 104 true]) 0
  /\ engine_presents_acknowledged x_dump2
    (hist_versions [WCreate w_a [120] 101 true; WCreate w_b [121] 102 true; WUpdate w_a [122] 101 103 true; WDelete w_b 102 104 true;
                    WCreate w_b [119] 105 true]) 103.
Proof. split; vm_compute; reflexivity. Qed.

(* a version stored above the reported revision (acknowledged, not yet published): Get(k, 0) returns it, List at 0 does not *)
Example C03_get_zero_reads_unpublished :
  let V := [(w_a, 0, be64 103); (w_a, 101, [120]); (w_a, 103, [122])] in
  get_model (raw_of V) 101 w_a 0 = GetResp 103 (Some ([122], 103)) /\
  list_model (raw_of V) None single_part 101 [47; 114; 47] [47; 114; 48] 0 0 = LResp 101 [(w_a, [120], 101)] false /\
  get_model (raw_of V) 103 w_a 0 = GetResp 103 (Some ([122], 103)).
Proof. repeat split; vm_compute; reflexivity. Qed.

Example C03_bytes_inhabited :
  wf_store ex_small /\ alpha w_a /\ In (w_a, 103, [121]) ex_small /\ [121] <> tombstone /\
  (forall y, In y ex_small -> vr_key y = w_a -> vr_rev y <= 105 -> vr_rev y <= 103) /\
  get_model (raw_of ex_small) 105 w_a 105 = GetResp 105 (Some ([121], 103)).
Proof.
  split; [split; [repeat constructor|repeat constructor; cbn; unfold two64; lia]|].
  split; [repeat constructor|]. split; [cbn; tauto|]. split; [discriminate|]. split.
  - intros y [<-|[<-|[<-|[]]]] _ _; cbn; lia.
  - vm_compute. reflexivity.
Qed.
