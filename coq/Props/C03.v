(* C03 — A read at a revision returns exactly the MVCC snapshot at that revision. (theorems added below as proofs land) *)
From KB Require Import Model.ReadSys Model.C03Cases.
Local Open Scope N_scope.

(* finding C03-F1: a created value equal to the reserved marker is not read back *)
Theorem C03_bytes_full_refuted :
  exists k v r, v <> [] /\ get_model (raw_of (enc_store [(k, 0, Some (be64 r)); (k, r, Some v)])) r k r = GetResp r None.
Proof. exists [47; 114; 47; 97], tombstone, 101. split; [discriminate|]. vm_compute. reflexivity. Qed.
Print Assumptions C03_bytes_full_refuted.
