(* C18 — Only the leader writes and streams; followers read at its revision or fail.
   Property theorems only: each is closed by `exact <lemma>` and followed by Print Assumptions. *)
From KB Require Import Model.Roles Model.RolesN Model.C18Cases Proofs.Roles Proofs.RolesN.
Local Open Scope N_scope.

(* every request kind of both APIs, the compaction loop and /status, every proxy setting, every
   behaviour of the leader's endpoint: a follower never makes a mutating backend call and never
   serves a watch from its own hub — complete case analysis of the decision function *)
Theorem C18_follower_never_writes : forall k proxy l,
  let e := roles_effects k Follower proxy l in
  f_backend e <> BMutate /\ f_backend e <> BWatchCall
  /\ outcome_of e <> ApplyLocal /\ outcome_of e <> WatchLocal.
Proof. exact follower_never_writes. Qed.
Print Assumptions C18_follower_never_writes.

Theorem C18_follower_outcomes : forall k proxy l,
  match outcome_of (roles_effects k Follower proxy l) with
  | RejectUnavailable | Forward | Error | Stub | Nothing | ServeLocalAt _ => True
  | ApplyLocal | WatchLocal | ServeLocal => False
  end.
Proof. exact follower_outcomes. Qed.
Print Assumptions C18_follower_outcomes.

Theorem C18_forward_only_with_proxy : forall k r proxy l,
  f_forward (roles_effects k r proxy l) <> FNone -> r = Follower /\ proxy = true.
Proof. exact forward_only_with_proxy. Qed.
Print Assumptions C18_forward_only_with_proxy.

(* /status answers with a revision exactly when the node is leader, and has no side effect *)
Theorem C18_leader_only_publishes : forall r proxy l,
  f_resp (roles_effects StatusHandler r proxy l) = RespOk <-> r = Leader.
Proof. exact leader_only_publishes. Qed.
Print Assumptions C18_leader_only_publishes.

(* a follower read that touches local data has fetched and adopted the leader's revision first; when the
   fetch does not succeed — connection refused, a non-200 status, or a 200 whose body is not the JSON
   document — the read fails and the read revision is untouched.  Full strength, every endpoint behaviour
   (the unparsable-body case was finding C18-F2 before the fix: commit). *)
Theorem C18_read_after_sync : forall l, read_after_sync_statement l.
Proof. exact read_after_sync. Qed.
Print Assumptions C18_read_after_sync.

(* freshness over all interleavings of two follower reads with an advancing leader.  The model is the syncer with
   installRevision (mutex + synced: a fetched revision is installed only if it is larger than every revision
   installed before) and a single flight whose joiners fetch again when the flight had started before they arrived.
   Full strength, every schedule: each read scans at a revision >= the leader's committed revision when it began
   (the shared flight was finding C18-F3, the plain store finding C18-F1, before their fix: commits) *)
Theorem C18_read_fresh : forall l0 f0 ls, fresh (run_code (i_init l0 f0) ls) = true.
Proof. exact read_fresh. Qed.
Print Assumptions C18_read_fresh.

(* the invariant behind it, for every schedule: synced only grows, the backend's read revision equals it once a
   fetched revision has been installed, at most one thread is inside SetCurrentRevision *)
Theorem C18_install_invariant : forall refetch share l0 f0 ls, sinv (run refetch share (i_init l0 f0) ls).
Proof. exact run_inv. Qed.
Print Assumptions C18_install_invariant.

(* the executable oracle accepts what the model produces *)
(* any number of concurrent follower reads (Model/RolesN.v: the same steps over a list of reads; the released mutex is
   taken by whichever waiting read is scheduled next): on every schedule every finished read scanned at a revision that
   is at least the leader's revision when the read began; the follower's revision never drops; and the two-read model
   above is the instance n = 2 ([abs], [tr_run]: every schedule of the two reads is a schedule of the n-read model with
   the same leader, follower and syncer revisions, mutex, flight and reads) *)
Theorem C18_read_fresh_n : forall share n l0 f0 ls, nfresh (nrun share (n_init n l0 f0) ls) = true.
Proof. exact nread_fresh. Qed.
Print Assumptions C18_read_fresh_n.
Theorem C18_install_invariant_n : forall share n l0 f0 ls, ninv (nrun share (n_init n l0 f0) ls).
Proof. exact nrun_inv. Qed.
Print Assumptions C18_install_invariant_n.
Theorem C18_follower_revision_monotone_n : forall share s l, (n_frev s <= n_frev (nstep share s l))%N.
Proof. exact nstep_frev_mono. Qed.
Print Assumptions C18_follower_revision_monotone_n.
Theorem C18_two_reads_are_n2 : forall share ls s, abs (run true share s ls) = nrun share (abs s) (tr_run share s ls).
Proof. exact abs_run. Qed.
Print Assumptions C18_two_reads_are_n2.
Example C18_three_reads :
  let s := nrun true (n_init 3 10 5) w_three in
  map (fun x => (t_begin x, t_scan x, match t_pc x with PDone => true | _ => false end)) (n_thrs s)
  = [(10, 12, true); (12, 12, true); (12, 12, true)]%N /\ n_frev s = 12%N.
Proof. exact three_reads. Qed.

Theorem C18_oracle_sound_roles : forall k r proxy l obs,
  c18_check (RoleCase k r proxy l obs) = true -> c18_oracle (RoleCase k r proxy l obs) = None.
Proof. exact c18_role_sound. Qed.
Print Assumptions C18_oracle_sound_roles.

Theorem C18_oracle_sound_schedules : forall l0 f0 ls a b sets,
  c18_validb (SchedCase l0 f0 ls a b sets) = true ->      (* the schedule runs both reads to completion *)
  c18_check (SchedCase l0 f0 ls a b sets) = true ->
  c18_oracle (SchedCase l0 f0 ls a b sets) = None.
Proof. exact c18_sched_sound. Qed.
Print Assumptions C18_oracle_sound_schedules.

(* schedules of n concurrent follower reads replayed on the real code (the driver: n = 3) against Model/RolesN.v through
   the run function nrun_code (final system + SetCurrentRevision log): a case on which the model reproduces every read's
   observation satisfies the oracle — C18_read_fresh_n at the run the case was checked against *)
Theorem C18_oracle_sound_schedules_n : forall n l0 f0 ls obs sets frev_end,
  c18_validb (SchedNCase n l0 f0 ls obs sets frev_end) = true ->      (* the schedule runs every read to completion *)
  c18_check (SchedNCase n l0 f0 ls obs sets frev_end) = true ->
  c18_oracle (SchedNCase n l0 f0 ls obs sets frev_end) = None.
Proof. exact c18_schedn_sound. Qed.
Print Assumptions C18_oracle_sound_schedules_n.
Theorem C18_three_reads_checked_fresh : forall l0 f0 ls a b c sets frev_end,
  c18_checkv (SchedNCase 3 l0 f0 ls [a; b; c] sets frev_end) = true ->
  tobs_fresh a = true /\ tobs_fresh b = true /\ tobs_fresh c = true.
Proof. exact c18_sched3_sound. Qed.
Print Assumptions C18_three_reads_checked_fresh.
Example C18_three_reads_case :
  c18_checkv (SchedNCase 3 10 5 w_three [TObs true 10 12 false; TObs true 12 12 false; TObs true 12 12 false] [(5, 12)] 12) = true
  /\ c18_checkv (SchedNCase 3 10 5 w_three [TObs true 10 10 false; TObs true 12 12 false; TObs true 12 12 false] [(5, 12)] 12) = false
  /\ c18_oracle (SchedNCase 3 10 5 w_three [TObs true 10 12 false; TObs true 12 11 false; TObs true 12 12 false] [(5, 12)] 12) = Some 0.
Proof. vm_compute. repeat split. Qed.

(* two overlapping reads where the second one's fetch fails: the failing read errs without touching the
   read revision, the first read is served at the revision it adopted *)
Theorem C18_failed_fetch_leaves_others_alone : forall r l, fetch_succeeds l = false ->
  overlap_model r l = (RespError, [r], r).
Proof. exact overlap_failed_fetch. Qed.
Print Assumptions C18_failed_fetch_leaves_others_alone.
Theorem C18_oracle_sound_overlap : forall r l b_resp sets a_scan a_nonempty,
  (0 < r)%N ->
  c18_check (OverlapCase r l b_resp sets a_scan a_nonempty) = true ->
  c18_oracle (OverlapCase r l b_resp sets a_scan a_nonempty) = None.
Proof. exact c18_overlap_sound. Qed.
Print Assumptions C18_oracle_sound_overlap.

(* etcd Range with an explicit Revision (pinned, current, future, or the partition magic; get, list, count-only):
   the follower syncs exactly as for Revision = 0 — the field is overloaded, count-only and the partition list
   answer at the node's read revision whatever it says *)
Theorem C18_explicit_revision_reads_sync : forall m v proxy l,
  roles_effects (ERangeAt m v) Follower proxy l = roles_effects ERangeList Follower proxy l.
Proof. exact explicit_revision_reads_sync. Qed.
Print Assumptions C18_explicit_revision_reads_sync.
(* the sequential follower (fn_req: the table's row applied to the node's read revision, installRevision dropping a
   revision that is not larger): a read at r1, the leader moves to a larger r2, a second read of any kind *)
Theorem C18_follow_model : forall m v r1 r2, (0 < r1)%N -> (r1 < r2)%N -> follow_model m v r1 r2 = ([r1; r2], r2).
Proof. exact follow_model_eq. Qed.
Print Assumptions C18_follow_model.
Theorem C18_oracle_sound_follow : forall m v r1 r2 sets hdr2, (0 < r1)%N -> (r1 < r2)%N ->
  c18_check (FollowCase m v r1 r2 sets hdr2) = true -> c18_oracle (FollowCase m v r1 r2 sets hdr2) = None.
Proof. exact c18_follow_sound. Qed.
Print Assumptions C18_oracle_sound_follow.

(* taking over: "leader flag => revision installed" (leader.go stores the flag after SetCurrentRevision(version));
   this is the premise under which C18_leader_only_publishes means "publishes a revision that covers the previous
   leader's writes"; it is tied to the real election by the take-over scenario of the driver *)
Theorem C18_leader_flag_implies_revision : forall p old version,
  tk_flag p = true -> (version <= tk_revision p old version)%N.
Proof. exact leader_flag_implies_revision. Qed.
Print Assumptions C18_leader_flag_implies_revision.
Theorem C18_takeover_peer_read : forall p old version,
  match f_backend (tk_peer_read p old version) with
  | BRead => f_set (tk_peer_read p old version) = Some (tk_revision p old version) /\ (version <= tk_revision p old version)%N
  | _ => f_resp (tk_peer_read p old version) = RespError
  end.
Proof. exact takeover_peer_read. Qed.
Print Assumptions C18_takeover_peer_read.
Theorem C18_oracle_sound_takeover : forall old version ms ml fr pc,
  c18_check (TakeoverCase old version ms ml fr pc) = true -> c18_oracle (TakeoverCase old version ms ml fr pc) = None.
Proof. exact c18_takeover_sound. Qed.
Print Assumptions C18_oracle_sound_takeover.

(* forwarding: a transaction handed to the etcd proxy never installs a revision on the follower; tied to the real
   service.NewPeerService (real syncer + real etcd proxy over gRPC) by the delayed-forward scenario of the driver *)
Theorem C18_forward_never_sets : forall k l,
  (k = ETxnCreate \/ k = ETxnDelete \/ k = ETxnUpdate \/ k = ETxnCompact \/ k = ETxnInvalid) ->
  f_set (roles_effects k Follower true l) = None /\ f_backend (roles_effects k Follower true l) = BNone.
Proof. exact forward_never_sets. Qed.
Print Assumptions C18_forward_never_sets.
(* the same node with the proxy: forwarded transaction, read, read *)
Theorem C18_forward_model : forall w r, forward_model w r = (if (0 <? r)%N then [r] else [], r, r).
Proof. exact forward_model_eq. Qed.
Print Assumptions C18_forward_model.
Theorem C18_oracle_sound_forward : forall w r sets h1 h2 c,
  c18_check (ForwardCase w r sets h1 h2 c) = true -> c18_oracle (ForwardCase w r sets h1 h2 c) = None.
Proof. exact c18_forward_sound. Qed.
Print Assumptions C18_oracle_sound_forward.

(* soundness for EVERY case kind the driver emits (role rows, schedules, overlap, follow-up, delayed forward, take-over):
   validity is decidable (c18_validb) and is a conjunct of the check the shards evaluate (c18_checkv), so every evaluated
   case is covered by this theorem; an invalid case would be reported as a mismatch *)
Theorem C18_oracle_sound : forall c, c18_valid_prop c -> c18_check c = true -> c18_oracle c = None.
Proof. exact c18_oracle_sound. Qed.
Print Assumptions C18_oracle_sound.
Theorem C18_validb_sound : forall c, c18_validb c = true <-> c18_valid_prop c.
Proof. exact c18_validb_sound. Qed.
Print Assumptions C18_validb_sound.
Theorem C18_checkv_sound : forall c, c18_checkv c = true -> c18_oracle c = None.
Proof. exact c18_checkv_sound. Qed.
Print Assumptions C18_checkv_sound.

(* "rejects as unavailable or forwards", exactly: a write or a watch on a follower is rejected as unavailable when there
   is no etcd proxy or the request is not an etcd one; with the proxy an etcd write or watch is forwarded as such; the
   leader applies a write itself (the compaction transaction gets the canned reply, an invalid one an error) *)
Theorem C18_follower_write_exact : forall k l, is_write k || is_stream k = true ->
  outcome_of (roles_effects k Follower false l) = RejectUnavailable
  /\ (etcd_fwd k <> FNone -> outcome_of (roles_effects k Follower true l) = Forward /\ f_forward (roles_effects k Follower true l) = etcd_fwd k)
  /\ (etcd_fwd k = FNone -> outcome_of (roles_effects k Follower true l) = RejectUnavailable).
Proof. exact follower_write_exact. Qed.
Print Assumptions C18_follower_write_exact.
Theorem C18_leader_write_exact : forall k proxy l, is_write k = true -> k <> ETxnCompact -> k <> ETxnInvalid ->
  outcome_of (roles_effects k Leader proxy l) = ApplyLocal.
Proof. exact leader_write_exact. Qed.
Print Assumptions C18_leader_write_exact.

(* the oracle is exact on the follower's write rows and on unfinished reads: an acknowledged write that was neither
   rejected nor forwarded, a forward without a proxy, a read that never completes are flagged *)
Example C18_lost_write_flagged :
  c18_oracle (RoleCase BCreate Follower false Unreachable (mkEff RespOk false None BNone FNone)) = Some 0%N
  /\ c18_oracle (RoleCase ETxnCreate Follower false Unreachable (mkEff RespOk false None BNone FNone)) = Some 0%N
  /\ c18_oracle (RoleCase EWatchPure Follower false Unreachable (mkEff RespOk false None BNone FNone)) = Some 0%N
  /\ c18_oracle (RoleCase ETxnCreate Follower false Unreachable (mkEff RespOk false None BNone FTxn)) = Some 0%N
  /\ c18_oracle (SchedCase 10 5 [] (TObs false 0 0 false) (TObs false 0 0 false) []) = Some 0%N.
Proof. exact lost_write_flagged. Qed.

(* non-vacuity *)
(* the schedule of the former finding C18-F1: A's late install of 10 is dropped, both reads scan at 12 *)
Example C18_set_race_harmless :
  let s := run_code (i_init 10 5) w_set_race in
  obs_of_thr (i_a s) = TObs true 10 12 false /\ obs_of_thr (i_b s) = TObs true 12 12 false
  /\ map (fun x => match x with (_, before, v) => (before, v) end) (i_sets s) = [(5, 12)].
Proof. exact set_race_harmless. Qed.
(* the schedule of the former finding C18-F3: B joins A's flight, waits for it and fetches again: both scan at 12;
   without the re-fetch B was served at 10 *)
Example C18_shared_flight_refetched :
  let s := run_code (i_init 10 5) [LStep TA; LStep TA; LStep TA; LAdv; LAdv; LStep TB; LStep TB; LStep TA; LStep TA; LStep TB; LStep TB; LStep TB; LStep TA; LStep TB; LStep TB; LStep TA; LStep TB] in
  obs_of_thr (i_a s) = TObs true 10 12 false /\ obs_of_thr (i_b s) = TObs true 12 12 false.
Proof. exact shared_flight_refetched. Qed.
Example C18_shared_flight_was_stale : fresh (run false true (i_init 10 5) w_shared_flight) = false.
Proof. exact shared_flight_was_stale. Qed.
Example C18_garbage_now_fails : outcome_of (roles_effects ERangeList Follower false Garbage200) = Error.
Proof. reflexivity. Qed.
Example C18_checkv_inhabited :
  c18_checkv (OverlapCase 99 Err400 RespError [99] 99 true) = true
  /\ c18_checkv (ForwardCase 7002 7004 [7004] 7004 7004 true) = true
  /\ c18_checkv (RoleCase ERangeList Follower false (ReachOk 50) (mkEff RespOk true (Some 50) BRead FNone)) = true
  /\ c18_checkv (FollowCase MList RvPinned 40 42 [40; 42] 42) = true
  /\ c18_checkv (SchedCase 10 5 w_set_race (TObs true 10 12 false) (TObs true 12 12 false) [(5, 12)]) = true.
Proof. vm_compute. repeat split. Qed.
Example C18_follower_read_ok : outcome_of (roles_effects ERangeList Follower false (ReachOk 50)) = ServeLocalAt 50.
Proof. reflexivity. Qed.
Example C18_leader_writes : outcome_of (roles_effects ETxnCreate Leader false Unreachable) = ApplyLocal.
Proof. reflexivity. Qed.
