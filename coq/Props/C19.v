(* C19 — Concurrent requests are free of data races.
   Property theorems only: each is closed by `exact <lemma>` and followed by Print Assumptions.
   What is proved is the lock discipline over the regenerated access table; the Go runtime's actual
   interleavings are not modelled (see props/C19.json, gaps): the statement is PARTIAL for the property. *)
From KB Require Import Base.Cases Model.Lockset Model.C19Cases Proofs.Lockset Proofs.C19Cases.
Local Open Scope N_scope.

(* the full statement: no execution of the node has a data race (traces of the real program) *)
Definition C19_full_statement (program_traces : trace -> Prop) : Prop :=
  forall tr, program_traces tr -> ~ race tr.

(* for every well-formed trace that conforms to an access table T (every access is an instance of one
   of T's sites and holds that site's locks; constructor-phase and confined accesses are ordered as the
   translator's escape analysis claims): if the table passes the check, the trace has no data race *)
Theorem C19_lockset_sound : forall t tr,
  wf tr -> conforms t tr -> check_table t = true -> ~ race tr.
Proof. exact lockset_sound. Qed.
Print Assumptions C19_lockset_sound.

(* per location: a race can only be at a location the check flags ... *)
Theorem C19_lockset_sound_flagged : forall t tr o n,
  wf tr -> conforms t tr -> race_at tr (o, n) -> smem n (flagged t) = true.
Proof. exact lockset_sound_flagged. Qed.
Print Assumptions C19_lockset_sound_flagged.

(* ... so with the recorded findings: if the regenerated table flags nothing outside the list
   (Gen.AccessesOk.accesses_ok), every race of a conforming trace is at a listed location *)
Theorem C19_lockset_sound_except : forall known t tr o n,
  wf tr -> conforms t tr -> unlisted known t = [] -> race_at tr (o, n) -> smem n known = true.
Proof. exact lockset_sound_except. Qed.
Print Assumptions C19_lockset_sound_except.

Theorem C19_oracle_sound : forall t n f l,
  find_loc n t = Some l -> check_location l = true -> c19_check t (KLoc n f) = true ->
  c19_oracle t (KLoc n f) = None /\ f = false.
Proof. exact c19_oracle_sound. Qed.
Print Assumptions C19_oracle_sound.

(* ---------- non-vacuity ---------- *)

Definition ex_f : str := [102].      (* field "f" *)
Definition ex_mu : str := [109;117]. (* lock "mu" *)
Definition ex_x : loc := (1, ex_f).
Definition ex_l : lockid := (1, ex_mu).
Definition ex_table : table :=
  [ {| l_name := ex_f; l_class := CShared;
       l_sites := [ {| s_id := 0; s_kind := KWr; s_locks := [(ex_mu, MW)]; s_phase := PRun |};
                    {| s_id := 1; s_kind := KRd; s_locks := [(ex_mu, MR)]; s_phase := PRun |} ] |} ].

(* the table passes; a locked writer/reader trace is well-formed ... *)
Definition ex_trace : trace :=
  [ (1, Acq ex_l MW); (1, Wr ex_x 0); (1, Rel ex_l MW); (2, Acq ex_l MR); (2, Rd ex_x 1); (2, Rel ex_l MR) ].
Example C19_table_passes : check_table ex_table = true.
Proof. vm_compute. reflexivity. Qed.
Example C19_hb_inhabited : hb ex_trace 1 4.
Proof.
  apply t_trans with 2%nat; [apply t_step; eapply hb_po; [| reflexivity | reflexivity]; auto|].
  apply t_trans with 3%nat; [apply t_step; eapply hb_sync with (m1 := MW) (m2 := MR); [| reflexivity | reflexivity | reflexivity]; auto|].
  apply t_step; eapply hb_po; [| reflexivity | reflexivity]; auto.
Qed.

(* ... and the discipline is needed: without the lock the same accesses are a race in the model *)
Definition ex_racy : trace := [ (1, Wr ex_x 0); (2, Rd ex_x 1) ].
Example C19_unlocked_is_race : race ex_racy.
Proof.
  exists ex_x. exists 0%nat, 1%nat, 1, 2, (Wr ex_x 0), (Rd ex_x 1).
  exists {| a_loc := ex_x; a_write := true; a_atomic := false; a_site := 0 |}.
  exists {| a_loc := ex_x; a_write := false; a_atomic := false; a_site := 1 |}.
  split; [auto|]. split; [reflexivity|]. split; [reflexivity|]. split; [discriminate|].
  split; [reflexivity|]. split; [reflexivity|]. split; [reflexivity|].
  split.
  - split; [reflexivity|]. split; [left; reflexivity|]. intros [H _]. discriminate.
  - intros H. apply hb_adjacent in H.
    inversion H; subst; simpl in *;
      repeat match goal with
             | H : Some _ = Some _ |- _ => injection H; intros; subst; clear H
             end; try discriminate; try congruence.
Qed.
Example C19_unprotected_pair_flagged :
  flagged [ {| l_name := ex_f; l_class := CShared;
               l_sites := [ {| s_id := 0; s_kind := KWr; s_locks := []; s_phase := PRun |};
                            {| s_id := 1; s_kind := KRd; s_locks := [(ex_mu, MR)]; s_phase := PRun |} ] |} ] = [ex_f].
Proof. vm_compute. reflexivity. Qed.
(* a write under a read lock does not pass either *)
Example C19_write_under_rlock_flagged :
  check_location {| l_name := ex_f; l_class := CShared;
                    l_sites := [ {| s_id := 0; s_kind := KWr; s_locks := [(ex_mu, MR)]; s_phase := PRun |} ] |} = false.
Proof. vm_compute. reflexivity. Qed.
