(* C19 — Concurrent requests are free of data races.
   Property theorems only: each is closed by `exact <lemma>` and followed by Print Assumptions.
   What is proved is the lock discipline over the regenerated access table; the Go runtime's actual
   interleavings are not modelled (see props/C19.json, gaps): the statement is PARTIAL for the property. *)
From KB Require Import Base.Cases Model.Lockset Model.C19Cases Proofs.Lockset Proofs.C19Cases.
Local Open Scope N_scope.

(* There is no theorem "no execution of the real node has a data race": the traces of the real program are not a
   Coq object.  What is proved is about traces that CONFORM to a table; that the real program's executions conform
   to the regenerated table is the translator's claim (trusted; props/C19.json, gaps).  The instantiation to the
   regenerated table is the generated theorem
       Gen.AccessesOk.C19_repo_no_race : forall tr, wf tr -> conforms accesses tr -> ~ race tr
   (rebuilt from /repo in the gen step of every check, next to accesses_ok; it cannot live in this file because
   the table does not exist until the translator has run). *)

(* for every well-formed trace that conforms to an access table T (every access is an instance of one
   of T's sites and holds that site's locks; constructor-phase and confined accesses are ordered as the
   translator's escape analysis claims): if the table passes the check, the trace has no data race *)
Theorem C19_lockset_sound : forall t tr,
  wf tr -> conforms t tr -> check_table t = true -> ~ race tr.
Proof. exact lockset_sound. Qed.
Print Assumptions C19_lockset_sound.

(* per location: a race can only be at a location the check flags ... *)
Theorem C19_lockset_sound_flagged : forall t tr o n,
  wf tr -> conforms t tr -> race_at tr (o, n) -> smem n (flagged t) = true.
Proof. exact lockset_sound_flagged. Qed.
Print Assumptions C19_lockset_sound_flagged.

(* ... so with the recorded findings: if the regenerated table flags nothing outside the list
   (Gen.AccessesOk.accesses_ok), every race of a conforming trace is at a listed location *)
Theorem C19_lockset_sound_except : forall known t tr o n,
  wf tr -> conforms t tr -> unlisted known t = [] -> race_at tr (o, n) -> smem n known = true.
Proof. exact lockset_sound_except. Qed.
Print Assumptions C19_lockset_sound_except.

Theorem C19_oracle_sound : forall t n f l,
  find_loc n t = Some l -> check_location l = true -> c19_check t (KLoc n f) = true ->
  c19_oracle t (KLoc n f) = None /\ f = false.
Proof. exact c19_oracle_sound. Qed.
Print Assumptions C19_oracle_sound.

(* the check spelled out: a table flags nothing iff no shared location has a conflicting pair of run-phase sites
   without a common lock held exclusively by one of them.  The translator's rules (a field access, an element
   write, a method of an opaque library object, `*p = T{...}` as a write of every field, a returned field-held
   slice as an unlocked write) only decide which sites with which kind / locks / phase are in the table; every
   site is one of the four kinds below, so this theorem covers them all. *)
Theorem C19_no_flagged_iff_no_unprotected_pair : forall t,
  flagged t = [] <->
  forall l, In l t -> l_class l = CShared ->
    forall s1 s2, In s1 (l_sites l) -> In s2 (l_sites l) ->
      s_phase s1 = PRun -> s_phase s2 = PRun -> kinds_conflict (s_kind s1) (s_kind s2) = true ->
      exists lk m1 m2, In (lk, m1) (s_locks s1) /\ In (lk, m2) (s_locks s2) /\ excl m1 m2 = true.
Proof. exact no_flagged_iff_no_unprotected_pair. Qed.
Print Assumptions C19_no_flagged_iff_no_unprotected_pair.

(* oracle soundness in the standard form.  NOTE: for location cases the oracle IS check_location, i.e. the same
   function validity is defined by, so C19_oracle_sound_valid holds by definition and says nothing beyond it; the
   check hypothesis (agreement with the translator's own Go implementation of the rule) is not even needed.  The
   judge that is independent of the table is the Go race detector in the driver's soak, outside Coq.
   Then: decidable validity, and what validity buys — no conforming trace races on a valid location. *)
Theorem C19_oracle_sound_valid : forall t c, c19_valid t c -> c19_check t c = true -> c19_oracle t c = None.
Proof. exact c19_oracle_sound_valid. Qed.
Print Assumptions C19_oracle_sound_valid.
Theorem C19_validb_sound : forall t c, c19_validb t c = true -> c19_valid t c.
Proof. exact c19_validb_sound. Qed.
Print Assumptions C19_validb_sound.
Theorem C19_covered_scope : forall t c, c19_check_covered t c = true -> c19_oracle t c = None -> c19_valid t c.
Proof. exact c19_covered_scope. Qed.
Print Assumptions C19_covered_scope.
Theorem C19_valid_no_race : forall t tr o n f,
  wf tr -> conforms t tr -> c19_valid t (KLoc n f) -> ~ race_at tr (o, n).
Proof. exact c19_valid_no_race. Qed.
Print Assumptions C19_valid_no_race.

(* ---------- non-vacuity ---------- *)

Definition ex_f : str := [102].      (* field "f" *)
Definition ex_mu : str := [109;117]. (* lock "mu" *)
Definition ex_x : loc := (1, ex_f).
Definition ex_l : lockid := (1, ex_mu).
Definition ex_table : table :=
  [ {| l_name := ex_f; l_class := CShared;
       l_sites := [ {| s_id := 0; s_kind := KWr; s_locks := [(ex_mu, MW)]; s_phase := PRun |};
                    {| s_id := 1; s_kind := KRd; s_locks := [(ex_mu, MR)]; s_phase := PRun |} ] |} ].

(* the table passes; a locked writer/reader trace is well-formed ... *)
Definition ex_trace : trace :=
  [ (1, Acq ex_l MW); (1, Wr ex_x 0); (1, Rel ex_l MW); (2, Acq ex_l MR); (2, Rd ex_x 1); (2, Rel ex_l MR) ].
Example C19_table_passes : check_table ex_table = true.
Proof. vm_compute. reflexivity. Qed.
Example C19_hb_inhabited : hb ex_trace 1 4.
Proof.
  apply t_trans with 2%nat; [apply t_step; eapply hb_po; [| reflexivity | reflexivity]; auto|].
  apply t_trans with 3%nat; [apply t_step; eapply hb_sync with (m1 := MW) (m2 := MR); [| reflexivity | reflexivity | reflexivity]; auto|].
  apply t_step; eapply hb_po; [| reflexivity | reflexivity]; auto.
Qed.

(* the hypotheses of the soundness theorems are satisfiable together: this trace is well-formed, conforms to the
   table (position 1 is an instance of site 0 holding mu exclusively, position 4 of site 1 holding it shared), and
   therefore has no race *)
Example C19_ex_wf : wf ex_trace.
Proof.
  intros k t2 l m2 Hk t1 m1 Hne Hex (a & Ha & Hacq & Hno).
  destruct k as [|[|[|[|[|[|k]]]]]]; cbn in Hk; try discriminate; try (destruct k; discriminate).
  - lia.
  - injection Hk; intros; subst.
    destruct a as [|[|[|a]]]; cbn in Hacq; try discriminate; try lia.
    injection Hacq; intros; subst.
    apply (Hno 2%nat); [lia|reflexivity].
Qed.
Example C19_ex_conforms : conforms ex_table ex_trace.
Proof.
  intros i th e a Hi Ha.
  destruct i as [|[|[|[|[|[|i]]]]]]; cbn in Hi; try (destruct i; discriminate);
    injection Hi as <- <-; cbn in Ha; try discriminate; injection Ha as <-.
  - eexists; eexists. split; [reflexivity|]. split; [reflexivity|]. split; [reflexivity|]. split.
    + intros lk m [H|[]]. injection H as <- <-. exists MW. split; [reflexivity|].
      exists 0%nat. split; [lia|]. split; [reflexivity|]. intros b Hb. lia.
    + intros [H|H]; discriminate.
  - eexists; eexists. split; [reflexivity|]. split; [reflexivity|]. split; [split; reflexivity|]. split.
    + intros lk m [H|[]]. injection H as <- <-. exists MR. split; [reflexivity|].
      exists 3%nat. split; [lia|]. split; [reflexivity|]. intros b Hb. assert (b = 3%nat) by lia. lia.
    + intros [H|H]; discriminate.
Qed.
Example C19_hyps_inhabited : wf ex_trace /\ conforms ex_table ex_trace /\ ~ race ex_trace.
Proof.
  split; [exact C19_ex_wf|]. split; [exact C19_ex_conforms|].
  apply (C19_lockset_sound ex_table ex_trace C19_ex_wf C19_ex_conforms). vm_compute. reflexivity.
Qed.

(* ... and the discipline is needed: without the lock the same accesses are a race in the model *)
Definition ex_racy : trace := [ (1, Wr ex_x 0); (2, Rd ex_x 1) ].
Example C19_unlocked_is_race : race ex_racy.
Proof.
  exists ex_x. exists 0%nat, 1%nat, 1, 2, (Wr ex_x 0), (Rd ex_x 1).
  exists {| a_loc := ex_x; a_write := true; a_atomic := false; a_site := 0 |}.
  exists {| a_loc := ex_x; a_write := false; a_atomic := false; a_site := 1 |}.
  split; [auto|]. split; [reflexivity|]. split; [reflexivity|]. split; [discriminate|].
  split; [reflexivity|]. split; [reflexivity|]. split; [reflexivity|].
  split.
  - split; [reflexivity|]. split; [left; reflexivity|]. intros [H _]. discriminate.
  - intros H. apply hb_adjacent in H.
    inversion H; subst; simpl in *;
      repeat match goal with
             | H : Some _ = Some _ |- _ => injection H; intros; subst; clear H
             end; try discriminate; try congruence.
Qed.
Example C19_unprotected_pair_flagged :
  flagged [ {| l_name := ex_f; l_class := CShared;
               l_sites := [ {| s_id := 0; s_kind := KWr; s_locks := []; s_phase := PRun |};
                            {| s_id := 1; s_kind := KRd; s_locks := [(ex_mu, MR)]; s_phase := PRun |} ] |} ] = [ex_f].
Proof. vm_compute. reflexivity. Qed.
(* a write under a read lock does not pass either *)
Example C19_write_under_rlock_flagged :
  check_location {| l_name := ex_f; l_class := CShared;
                    l_sites := [ {| s_id := 0; s_kind := KWr; s_locks := [(ex_mu, MR)]; s_phase := PRun |} ] |} = false.
Proof. vm_compute. reflexivity. Qed.

Example C19_validb_examples :
  c19_validb ex_table (KLoc ex_f false) = true /\ c19_check_covered ex_table (KLoc ex_f false) = true /\
  c19_check_covered ex_table (KLoc ex_f true) = false /\ c19_validb ex_table (KLoc ex_mu false) = false.
Proof. vm_compute. repeat split; reflexivity. Qed.
