(* C13 — Range results do not depend on how the engine partitions the key space.
   Property theorems only.  Model: Model/ReadSys.v (adjust_borders, scan, receivers, GetPartitions,
   ListByStream).  The engine's GetPartitions is a parameter `parts`; `tiling ps lo hi` = ps is, in any
   order, the list of consecutive pairs of strictly increasing borders lo < b1 < ... < hi whose interior
   points are Enc(k, r) for any key k over the alphabet and any revision r (in a well-formed store every
   stored key has that form). *)
From KB Require Import Base.Cases Model.Coder Model.ReadSys Model.C03Cases Model.C13Cases Model.ReadValid Model.ReadRetry
  Proofs.Coder Proofs.ReadSys Proofs.ReadSysSnap Proofs.ReadSysThm Proofs.ReadSysSpec Proofs.ReadSysPart Proofs.ReadSysC13 Proofs.ReadSysC13b Proofs.ReadSysC03b Proofs.ReadValid Proofs.ReadRetry.
Local Open Scope N_scope.

(* fold splitting: the worker loop over X ++ Y is the two runs concatenated when no key occurs on both sides *)
Theorem C13_split : forall R (V1 V2 : list (@vrec bytes)),
  (forall y z, In y V1 -> In z V2 -> vr_key z <> vr_key y) ->
  wrun_top R (V1 ++ V2) = wrun_top R V1 ++ wrun_top R V2.
Proof. exact wrun_top_split. Qed.
Print Assumptions C13_split.

(* ... which is the case when the interval [lo, hi) of a store is cut at an index-record position *)
Theorem C13_split_index : forall (V : list (@vrec bytes)) R lo k hi, wf_store V -> alpha k ->
  bcmp lo (encode k 0) <> Gt -> bcmp (encode k 0) hi <> Gt ->
  wrun_top R (seg V lo hi) = wrun_top R (seg V lo (encode k 0)) ++ wrun_top R (seg V (encode k 0) hi).
Proof. exact c13_split_index. Qed.
Print Assumptions C13_split_index.

(* adjustPartitionsBorders on any tiling, listed in any order: the result is the list of consecutive
   pairs of a chain lo = c0 <= c1 <= ... <= cn = hi (contiguous, covering [lo, hi)) whose interior
   points are index-record positions *)
Theorem C13_adjust : forall ps a hi, alpha a -> tiling ps (encode a 0) hi ->
  exists cs, cs <> [] /\ adjust_borders ps = Some (pairs_of (encode a 0 :: cs)) /\
             chain (encode a 0 :: cs) /\ Forall index_pos (removelast cs) /\ last cs (encode a 0) = hi.
Proof. exact c13_adjust. Qed.
Print Assumptions C13_adjust.

Theorem C13_sort_any_order : forall ps ps0, Permutation ps ps0 -> StronglySorted plt ps0 -> sort_parts ps = ps0.
Proof. exact sort_parts_of_perm. Qed.
Print Assumptions C13_sort_any_order.

(* unlimited List and Count under any tiling = the in-range snapshot = the unpartitioned answer *)
Theorem C13_range : forall (V : list (@vrec bytes)) fv parts cur a b rev,
  wf_store V -> alpha a -> alpha b -> bcmp a b = Lt -> floor_check fv (eff rev cur) = FOk -> valid_parts parts a b ->
  list_model (raw_of V) fv parts cur a b rev 0 = LResp cur (in_range a b (snapshot V (eff rev cur))) false.
Proof. exact c13_range. Qed.
Print Assumptions C13_range.

Theorem C13_range_unpartitioned : forall (V : list (@vrec bytes)) fv parts cur a b rev,
  wf_store V -> alpha a -> alpha b -> bcmp a b = Lt -> floor_check fv (eff rev cur) = FOk -> valid_parts parts a b ->
  list_model (raw_of V) fv parts cur a b rev 0 = list_model (raw_of V) fv single_part cur a b rev 0.
Proof. exact c13_range_indep. Qed.
Print Assumptions C13_range_unpartitioned.

Theorem C13_count : forall (V : list (@vrec bytes)) fv parts cur a b,
  wf_store V -> alpha a -> alpha b -> bcmp a b = Lt -> floor_check fv cur = FOk -> valid_parts parts a b ->
  count_model (raw_of V) fv parts true cur a b = CResp cur (N.of_nat (length (in_range a b (snapshot V cur)))).
Proof. exact c13_count. Qed.
Print Assumptions C13_count.

(* part of the oracle's soundness (C13_oracle_sound below), at the level of a raw
   dump that passes the executable well-formedness test: what the model computes on the dump for the
   unpartitioned List, the partitioned List and the partitioned Count is the in-range snapshot of the
   dump's versions — the first three clauses of c13_oracle's group verdict *)
Theorem C13_oracle_sound_partial : forall s fv parts cur a b rev,
  dump_wf s = true -> alpha a -> alpha b -> bcmp a b = Lt -> valid_parts parts a b ->
  floor_check fv (eff rev cur) = FOk -> floor_check fv cur = FOk ->
  let V := versions_of (data_of s) in
  let K := in_range a b (snapshot V (eff rev cur)) in
  list_model s fv single_part cur a b rev 0 = LResp cur K false /\
  list_model s fv parts cur a b rev 0 = LResp cur K false /\
  count_model s fv parts true cur a b = CResp cur (N.of_nat (length (in_range a b (snapshot V cur)))).
Proof. exact c13_group_list_count_sound. Qed.
Print Assumptions C13_oracle_sound_partial.

(* every possible stream (any interleaving of the workers' sends): data batches all name the read
   revision, are non-empty and error-free; exactly one terminator, last; the streamed key-values are a
   permutation of the in-range snapshot (each key once, with the unpartitioned version) *)
Theorem C13_stream : forall (V : list (@vrec bytes)) fv parts cur a b rev out,
  wf_store V -> alpha a -> alpha b -> bcmp a b = Lt -> floor_check fv (eff rev cur) = FOk -> valid_parts parts a b ->
  stream_outcome (stream_model (raw_of V) fv parts cur (encode a 0) (encode b 0) rev) out ->
  exists data, out = data ++ [term_msg (eff rev cur) false] /\ Forall (msg_ok (eff rev cur)) data /\
               Permutation (flat_map m_kvs data) (in_range a b (snapshot V (eff rev cur))).
Proof. exact c13_stream. Qed.
Print Assumptions C13_stream.

(* a refused stream (the read revision is below the compaction floor): no data batch, exactly one terminator, carrying the error *)
Theorem C13_stream_refused : forall s fv parts cur lo hi rv out, floor_check fv (eff rv cur) = FErr ->
  stream_outcome (stream_model s fv parts cur lo hi rv) out -> out = [term_msg (eff rv cur) true].
Proof. exact stream_refused. Qed.
Print Assumptions C13_stream_refused.

(* GetPartitions for any tiling the engine reports, in any order (the engine's list is sorted first; fix 51e6ded
   pulls interior borders back): the advertised keys are the scanner's adjusted borders *)
Theorem C13_advertised_keys : forall parts cur a b, valid_parts parts a b ->
  exists bs, bs <> [] /\ strict_chain (encode a 0 :: bs) /\ last bs (encode a 0) = encode b 0 /\
             Forall border_ok (removelast bs) /\
             get_partitions_model parts cur a b = (cur, N.of_nat (length bs), encode a 0 :: adj bs).
Proof. exact get_partitions_tiling. Qed.
Print Assumptions C13_advertised_keys.

(* ... they ascend, interior keys are index-record positions, and the workers of the consecutive pairs
   together emit every qualifying key exactly once: their outputs concatenate to the in-range snapshot *)
Theorem C13_advertised : forall (V : list (@vrec bytes)) R parts cur a b,
  wf_store V -> alpha a -> alpha b -> bcmp a b = Lt -> valid_parts parts a b ->
  let keys := snd (get_partitions_model parts cur a b) in
  chain keys /\ Forall index_pos (interior keys) /\
  concat (map (fun p => wrun_top R (seg V (fst p) (snd p))) (pairs_of keys)) = in_range a b (snapshot V R).
Proof. exact c13_advertised. Qed.
Print Assumptions C13_advertised.

(* ---------- the executable check and oracle ---------- *)
(* the greedy interleaving test used by the check is sound for the `interleaving` relation of the model *)
Theorem C13_interleave_check_sound : forall out ls, interleave_check ls out = true -> interleaving ls out.
Proof. exact interleave_check_sound. Qed.
Print Assumptions C13_interleave_check_sound.

Theorem C13_stream_check_sound : forall r out, stream_check r out = true -> stream_outcome r out.
Proof. exact stream_check_sound. Qed.
Print Assumptions C13_stream_check_sound.

(* the oracle's multiset comparison: sorting any permutation of a list strictly ascending by key returns it;
   the in-range snapshot is such a list *)
Theorem C13_sort_streamed : forall l K, Permutation l K -> StronglySorted olt K -> sort_okv l = K.
Proof. exact sort_okv_of_perm. Qed.
Print Assumptions C13_sort_streamed.

Theorem C13_snapshot_key_sorted : forall (V : list (@vrec bytes)) R, StronglySorted olt (snapshot V R).
Proof. exact snapshot_sorted. Qed.
Print Assumptions C13_snapshot_key_sorted.

(* one stream the model reproduces on a raw dump — the whole range or a non-degenerate advertised pair *)
Theorem C13_stream_dump : forall s fv parts cur k1 k2 rev out,
  dump_wf s = true -> alpha k1 -> alpha k2 -> bcmp k1 k2 = Lt -> valid_parts parts k1 k2 ->
  floor_check fv (eff rev cur) = FOk ->
  stream_check (stream_model s fv parts cur (encode k1 0) (encode k2 0) rev) out = true ->
  stream_shape (eff rev cur) out = true /\
  Permutation (stream_kvs out) (in_range k1 k2 (snapshot (versions_of (data_of s)) (eff rev cur))).
Proof. exact stream_dump. Qed.
Print Assumptions C13_stream_dump.

(* any advertised pair, including the empty pair (c, c) for which the engine answers [(c, c)] *)
Theorem C13_pair_stream : forall s fv parts cur c d rev out,
  dump_wf s = true -> index_pos c -> index_pos d -> bcmp c d <> Gt -> pair_valid parts c d ->
  floor_check fv (eff rev cur) = FOk ->
  stream_check (stream_model s fv parts cur c d rev) out = true ->
  stream_shape (eff rev cur) out = true /\
  Permutation (stream_kvs out) (wrun_top (eff rev cur) (seg (versions_of (data_of s)) c d)).
Proof. exact pair_stream. Qed.
Print Assumptions C13_pair_stream.

(* one group: if the model reproduces all six recorded responses, all eight clauses of the oracle hold *)
Theorem C13_group_sound : forall s fv cur calls g,
  dump_wf s = true -> c13_group_valid calls cur g -> group_check s fv cur calls g = true -> group_verdict s cur g = None.
Proof. exact c13_group_sound. Qed.
Print Assumptions C13_group_sound.

(* the whole case: a case the model reproduces entirely satisfies the property oracle.  c13_valid: keys over
   the alphabet and every recorded engine answer a tiling (Prop-level facts the boolean check does not test) *)
Theorem C13_oracle_sound : forall c, c13_valid c -> c13_check c = true -> c13_oracle c = None.
Proof. exact c13_oracle_sound. Qed.
Print Assumptions C13_oracle_sound.

(* validity is decidable, and it is what every shard evaluates: the shards' check function is c13_check_valid
   (= c13_check && c13_validb), so every evaluated case is covered by C13_oracle_sound *)
Theorem C13_validb_sound : forall c, c13_validb c = true -> c13_valid c.
Proof. exact c13_validb_spec. Qed.
Print Assumptions C13_validb_sound.

Theorem C13_tilingb_sound : forall ps lo hi, tilingb ps lo hi = true -> tiling ps lo hi.
Proof. exact tilingb_spec. Qed.
Print Assumptions C13_tilingb_sound.

Theorem C13_check_valid_sound : forall c, c13_check_valid c = true -> c13_oracle c = None.
Proof. exact c13_check_valid_sound. Qed.
Print Assumptions C13_check_valid_sound.

(* ---------- iterator failures: runWithBackoffRetry (the scan-fault case of the driver) ----------
   Model/ReadRetry.v: an attempt whose iterator fails after n records leaves a partially filled receiver; the next
   attempt runs on the same receiver and starts with reset(); at most three attempts.  Hypothesis made explicit:
   fail_clean — what a failed attempt left behind is cleared by reset. *)
Theorem C13_retry_fault_free : forall R recs rc, fail_clean R recs rc -> forall faults steps rc', rcv_reset rc' = rcv_reset rc ->
  (length faults < steps)%nat -> retry_from R recs rc' faults steps = Some (worker_run R recs rc).
Proof. exact retry_fault_free. Qed.
Print Assumptions C13_retry_fault_free.

(* for the receivers of List and Count the hypothesis always holds *)
Theorem C13_retry_list_count : forall R recs rc faults, nonstream rc -> (length faults < backoff_steps)%nat ->
  retry_run R recs rc faults = Some (worker_run R recs rc).
Proof. exact retry_nonstream. Qed.
Print Assumptions C13_retry_list_count.

(* hence the whole scan with retried workers is the fault-free scan of the model (unlimited List, Count) *)
Theorem C13_scan_retry : forall s fv parts start end_ R rc faults, nonstream rc ->
  (forall p, (length (faults p) < backoff_steps)%nat) ->
  scan_retry s fv parts start end_ R rc faults = SrRes (scan s fv parts start end_ R rc).
Proof. exact scan_retry_nonstream. Qed.
Print Assumptions C13_scan_retry.

(* a stream keeps what it already sent: the retried worker equals the fault-free one when no failed attempt had
   sent a batch; guaranteed when the partition holds fewer records than one batch *)
Theorem C13_retry_stream : forall R recs rr faults, fail_clean R recs (RStream rr [] []) -> (length faults < backoff_steps)%nat ->
  retry_run R recs (RStream rr [] []) faults = Some (worker_run R recs (RStream rr [] [])).
Proof. exact retry_stream. Qed.
Print Assumptions C13_retry_stream.

Theorem C13_retry_stream_small : forall R recs rr, (length recs < stream_batch)%nat -> fail_clean R recs (RStream rr [] []).
Proof. exact small_stream_fail_clean. Qed.
Print Assumptions C13_retry_stream_small.

(* ---------- the sort in GetPartitions is needed (former finding C13-F1, fixed) ----------
   advertised_keys applied to the engine's list as given — what GetPartitions did before the fix — yields
   keys that are not ascending when the engine lists its partitions out of key order *)
Example C13_unsorted_listing_needs_sort :
  let ps := [(encode [98] 0, encode [99] 0); (encode [97] 0, encode [98] 0)] in
  advertised_keys true ps = [encode [98] 0; encode [97] 0; encode [98] 0] /\
  advertised_keys true (sort_parts ps) = [encode [97] 0; encode [98] 0; encode [99] 0].
Proof. split; reflexivity. Qed.

(* ---------- non-vacuity and necessity ---------- *)
Definition k_a : bytes := [47; 114; 47; 97].   (* "/r/a" *)
Definition k_b : bytes := [47; 114; 47; 98].
Definition ex_store13 : list (@vrec bytes) :=
  [(k_a, 0, be64 105); (k_a, 101, [49]); (k_a, 103, [50]); (k_a, 105, [51]);
   (k_a ++ [47; 98], 0, be64 106 ++ [0]); (k_a ++ [47; 98], 102, [120]); (k_a ++ [47; 98], 106, tombstone);
   (k_b, 0, be64 104); (k_b, 104, [121])].

(* three pieces, listed out of order: a border between two versions of /r/a, one on the index record of /r/b *)
Definition ex_parts : partition_fn := fun lo hi =>
  [(encode k_b 0, hi); (lo, encode k_a 104); (encode k_a 104, encode k_b 0)].

Example C13_tiling_inhabited :
  wf_store ex_store13 /\ valid_parts ex_parts [47; 114; 47] [47; 114; 48].
Proof.
  split.
  - split; [repeat constructor|]. repeat constructor; cbn; unfold two64; lia.
  - exists [encode k_a 104; encode k_b 0; encode [47; 114; 48] 0]. split; [discriminate|]. split.
    + unfold ex_parts. exact (Permutation_cons_append [(_, _); (_, _)] (_, _)).
    + split; [repeat split; vm_compute; reflexivity|]. split; [reflexivity|].
      cbn [removelast]. repeat constructor.
      * exists k_a, 104. split; [repeat constructor|split; [unfold two64; lia|reflexivity]].
      * exists k_b, 0. split; [repeat constructor|split; [unfold two64; lia|reflexivity]].
Qed.

Example C13_example_run :
  list_model (raw_of ex_store13) None ex_parts 106 [47; 114; 47] [47; 114; 48] 103 0
    = LResp 106 [(k_a, [50], 103); (k_a ++ [47; 98], [120], 102)] false /\
  count_model (raw_of ex_store13) None ex_parts true 106 [47; 114; 47] [47; 114; 48] = CResp 106 2 /\
  get_partitions_model ex_parts 106 [47; 114; 47] [47; 114; 48]
    = (106, 3, [encode [47; 114; 47] 0; encode k_a 0; encode k_b 0; encode [47; 114; 48] 0]).
Proof. repeat split; vm_compute; reflexivity. Qed.

(* the alphabet hypothesis on borders is needed: a border Enc("/r/a$\0\0\0", 9) is pulled back to a position
   inside the versions of /r/a when its revisions straddle 36 * 2^32, and /r/a is then returned twice *)
Example C13_alphabet_needed :
  let V := [(k_a, 0, be64 158913789952); (k_a, 5, [49]); (k_a, 158913789952, [50])] in
  let bad := encode (k_a ++ [36; 0; 0; 0]) 9 in
  list_model (raw_of V) None (fun lo hi => [(lo, bad); (bad, hi)]) 158913789952 [47; 114; 47] [47; 114; 48] 0 0
    = LResp 158913789952 [(k_a, [49], 5); (k_a, [50], 158913789952)] false.
Proof. vm_compute. reflexivity. Qed.

(* non-vacuity of C13_oracle_sound: a concrete case (the store and the shuffled three-piece tiling above, every
   advertised pair answered by one piece), its responses computed by the model, is valid and passes the check *)
Definition ex_lo : bytes := encode [47; 114; 47] 0.
Definition ex_hi : bytes := encode [47; 114; 48] 0.
Definition ex_calls : list pcall :=
  [(ex_lo, ex_hi, ex_parts ex_lo ex_hi);
   (ex_lo, encode k_a 0, [(ex_lo, encode k_a 0)]);
   (encode k_a 0, encode k_b 0, [(encode k_a 0, encode k_b 0)]);
   (encode k_b 0, ex_hi, [(encode k_b 0, ex_hi)])].
Definition ex_stream (r : stream_res) : list smsg := match r with StOk pp t => concat pp ++ [t] | StPanic => [] end.
Definition ex_group : c13_group :=
  let s := raw_of ex_store13 in
  let parts := parts_of ex_calls in
  let a := [47; 114; 47] in let b := [47; 114; 48] in
  mk_group a b 103
    (list_model s None single_part 106 a b 103 0) (list_model s None parts 106 a b 103 0)
    (count_model s None parts true 106 a b)
    (ex_stream (stream_model s None parts 106 (encode a 0) (encode b 0) 103))
    (get_partitions_model parts 106 a b)
    (map (fun p => ex_stream (stream_model s None parts 106 (fst p) (snd p) 103))
         (pairs_of (snd (get_partitions_model parts 106 a b)))).
Definition ex_case : c13_case := mk_c13 [99] (raw_of ex_store13) 106 [mk_tiling ex_calls [ex_group]].

Lemma single_tiling lo hi : bcmp lo hi = Lt -> tiling [(lo, hi)] lo hi.
Proof. intros L. exists [hi]. split; [discriminate|]. split; [apply Permutation_refl|]. repeat split; [exact L|constructor]. Qed.

Example C13_check_valid_inhabited : c13_check_valid ex_case = true.
Proof. vm_compute. reflexivity. Qed.

Example C13_oracle_sound_inhabited : c13_valid ex_case /\ c13_check ex_case = true /\ c13_oracle ex_case = None.
Proof.
  split; [|split; vm_compute; reflexivity].
  intros t [<-|[]] g [<-|[]]. split; [repeat constructor|]. split; [repeat constructor|]. intros _. split.
  - change (parts_of (t_calls (mk_tiling ex_calls [ex_group]))) with (parts_of ex_calls).
    unfold valid_parts. change (parts_of ex_calls (encode (g_a ex_group) 0) (encode (g_b ex_group) 0)) with (ex_parts ex_lo ex_hi).
    apply (proj2 C13_tiling_inhabited).
  - intros p Hp. vm_compute in Hp.
    destruct Hp as [<-|[<-|[<-|[]]]]; right; apply single_tiling; vm_compute; reflexivity.
Qed.

(* retries: two failed attempts (after 2 and after 5 records), then success — same result as without faults;
   three failures exhaust the back-off *)
Example C13_retry_example :
  let recs := iter (raw_of ex_store13) (encode [47; 114; 47] 0) (encode [47; 114; 48] 0) in
  retry_run 106 recs (RCommon 0 []) [2%nat; 5%nat] = Some (worker_run 106 recs (RCommon 0 [])) /\
  retry_run 106 recs (RStream 106 [] []) [2%nat; 5%nat] = Some (worker_run 106 recs (RStream 106 [] [])) /\
  retry_run 106 recs RCount [1%nat; 1%nat; 1%nat] = None.
Proof. repeat split; vm_compute; reflexivity. Qed.

(* the hypothesis on streams is needed: 301 keys, the iterator fails after all 602 records (a batch of 300 is
   already on the channel), the retry sends it again *)
Definition many_key (i : nat) : bytes := [47; 114; 47; 107; 48 + N.of_nat (i / 100); 48 + N.of_nat ((i / 10) mod 10); 48 + N.of_nat (i mod 10)].
Definition many_store : raw_store :=
  flat_map (fun i => [(encode (many_key i) 0, be64 7); (encode (many_key i) 7, [120])]) (seq 0 301).

Example C13_retry_stream_hypothesis_needed :
  match retry_run 9 many_store (RStream 9 [] []) [602%nat], worker_run 9 many_store (RStream 9 [] []) with
  | Some (WROk _ rc1), WROk _ rc2 => (length (rcv_sent rc1) =? 3)%nat && (length (rcv_sent rc2) =? 2)%nat
  | _, _ => false
  end = true.
Proof. vm_compute. reflexivity. Qed.

Example C13_stream_refused_inhabited :
  floor_check (Some (be64 105)) (eff 103 106) = FErr /\
  stream_model (raw_of ex_store13) (Some (be64 105)) ex_parts 106 ex_lo ex_hi 103 = StOk [] (term_msg 103 true).
Proof. split; vm_compute; reflexivity. Qed.
