(* C13 — Range results do not depend on how the engine partitions the key space. (theorems added as proofs land) *)
From KB Require Import Model.ReadSys Model.C03Cases Model.C13Cases.
Local Open Scope N_scope.

(* finding C13-F1: partitions listed out of key order are advertised as listed *)
Theorem C13_advertised_unsorted_refuted :
  exists (ps : list part), sort_parts ps <> ps /\
    advertised_keys true ps = [encode [98] 0; encode [97] 0; encode [98] 0].
Proof. exists [(encode [98] 0, encode [99] 0); (encode [97] 0, encode [98] 0)]. split; [vm_compute; discriminate|reflexivity]. Qed.
Print Assumptions C13_advertised_unsorted_refuted.
