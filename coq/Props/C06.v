(* C06 — List-then-watch reconstructs the store.
   Property theorems only: each is closed by `exact <lemma>` and followed by Print Assumptions.
   Models: Model/C06Cases.v (versions, MVCC snapshot, sequential write model over arbitrary histories of
   successful and failed writes, event replay, compaction rule) and the producer of Model/WatchSys.v. *)
From KB Require Import Base.Cases Model.WatchSys Model.C06Cases Proofs.WatchSys Proofs.C06.
From KB Require Model.RetrySys Model.C06Faults Proofs.RetryInv2 Proofs.RetryProps Proofs.RetryInvX Proofs.RetryWitness Proofs.C09Cases Proofs.C06Faults Model.RetryCompact Proofs.RetryCompact Proofs.RetryCompactThms.
From KB Require Model.KeySys Proofs.C06KeySysBridge.
Local Open Scope N_scope.

(* In every reachable state of the watch system — all label lists, all parameters — whose sequencer is fed from
   a slot sequence numbered c0+1, c0+2, ..., the events ever cached (plus the one already built, committed and
   about to be cached) are exactly `map to_event` of the successful slots with revision <= committed, in order:
   one event per successful write, same revision, none for a failed write. *)
Theorem C06_events_are_versions : forall pa l c0 slots ls,
  numbered c0 slots -> (forall we, In (LSeqTake we) ls -> In we slots) ->
  let s := run pa ls (init l c0) in
  s_cached s ++ cur_list s = events_of (firstn (N.to_nat (s_committed s - c0)) slots).
Proof. exact events_are_versions. Qed.
Print Assumptions C06_events_are_versions.

(* ... in particular for the slots of the sequential write model, whose stored versions are those of its slots *)
Theorem C06_events_are_versions_exec : forall pa l c0 h ls,
  (forall we, In (LSeqTake we) ls -> In we (fst (exec c0 h))) ->
  let s := run pa ls (init l c0) in
  s_cached s ++ cur_list s = events_of (firstn (N.to_nat (s_committed s - c0)) (fst (exec c0 h))) /\
  snd (exec c0 h) = versions_of (fst (exec c0 h)).
Proof. exact events_are_versions_exec. Qed.
Print Assumptions C06_events_are_versions_exec.

(* a delete event carries the value and the modification revision it superseded. NOTE: in the sequential write model
   this restates the WDelete branch of exec_one (the slot is built from `live V k top` there); it documents the
   model, it is not a statement about the implementation. The tie to the code is delete_slots_ok inside c06_check:
   every delete slot the implementation resolved must carry the value/revision the history of successful writes gives *)
Theorem C06_delete_carries_prev : forall V r a,
  let '(we, _) := exec_one V r a in
  we_valid we = true -> we_verb we = VDelete -> live V (we_key we) top = Some (we_val we, we_prev we).
Proof. exact delete_carries_prev. Qed.
Print Assumptions C06_delete_carries_prev.

(* replay: for every history of successful and failed writes, all R <= R' and every prefix P, applying the
   events of (R, R'] on P to the range result at R gives the range result at R' *)
Theorem C06_replay : forall c0 h R R' P, R <= R' ->
  apply_events (filter (in_window R R' P) (events_of (fst (exec c0 h)))) (in_prefix P (snapshot (snd (exec c0 h)) R))
  = in_prefix P (snapshot (snd (exec c0 h)) R').
Proof. exact replay_exec_equal. Qed.
Print Assumptions C06_replay.

(* the same for any resolved slot sequence with revision-sorted events (concurrent writers) *)
Theorem C06_replay_slots : forall slots R R' P, sorted (events_of slots) -> R <= R' ->
  apply_events (filter (in_window R R' P) (events_of slots)) (in_prefix P (snapshot (versions_of slots) R))
  = in_prefix P (snapshot (versions_of slots) R').
Proof. exact replay_equal. Qed.
Print Assumptions C06_replay_slots.

(* a read is the replay of all events up to its revision *)
Theorem C06_read_is_replay : forall slots k R,
  live (versions_of slots) k R = fold_left (eff k) (filter (upto R) (events_of slots)) None.
Proof. exact live_is_replay. Qed.
Print Assumptions C06_read_is_replay.

(* compaction (also partial / still running) with floor <= R removes only superseded versions and tombstones of
   revision <= floor, older versions of a key going with the newer removed one: every read and every snapshot at
   R is unchanged; the events do not depend on the stored versions at all *)
Theorem C06_compaction_preserves_reads : forall V floor keep k R,
  newest_first V -> compaction_rule V floor keep -> floor <= R ->
  live (filter keep V) k R = live V k R.
Proof. exact compaction_preserves_reads. Qed.
Print Assumptions C06_compaction_preserves_reads.

Theorem C06_compaction_preserves_snapshot : forall V floor keep R,
  newest_first V -> compaction_rule V floor keep -> floor <= R ->
  snapshot (filter keep V) R = snapshot V R.
Proof. exact compaction_preserves_snapshot_equal. Qed.
Print Assumptions C06_compaction_preserves_snapshot.

(* the executable oracle accepts everything the model produces *)
Theorem C06_oracle_sound : forall c, c06_valid c -> c06_check c = true -> c06_oracle c = None.
Proof. exact c06_oracle_sound. Qed.
Print Assumptions C06_oracle_sound.

(* validity is decidable and evaluated on every list-then-watch case: c06_check includes c06_validb *)
Theorem C06_validb_valid : forall c, c06_validb c = true -> c06_valid c.
Proof. exact c06_validb_valid. Qed.
Print Assumptions C06_validb_valid.

(* hence for every list-then-watch case kind the driver emits as KLw — plain and hooked runs, several concurrent
   clients on different prefixes, mixed-prefix batches with a lagging consumer, the partitioned (streamed) client
   path with refused reads re-listed, a partition border on a version record with partitioned and limited reads —
   a passed check implies the property, with no hypothesis left *)
Theorem C06_check_sound : forall P slots R0 kv0 wok evs lists,
  c06_check (KLw P slots R0 kv0 wok evs lists) = true -> c06_oracle (KLw P slots R0 kv0 wok evs lists) = None.
Proof. exact c06_check_sound. Qed.
Print Assumptions C06_check_sound.

(* the composed statement. The watch system — every interleaving of sequencer, hub, watch registration,
   processEvents and client, all capacities — fed with the slots of an arbitrary history of successful and failed
   writes: a watcher started at R+1 on prefix P whose stream is open and settled has received exactly the events that
   turn the range result at R into the range result at every R' with R <= R' <= committed.
   [C05_complete + C06_events_are_versions + C06_replay; outside: C03 (List at R is snapshot V R) and C07 (the real
   compactor obeys compaction_rule, which C06_compaction_preserves_snapshot shows harmless).] *)
Theorem C06_list_then_watch : forall pa l c0 h ls i w R R', 0 < l ->
  (forall we, In (LSeqTake we) ls -> In we (fst (exec c0 h))) ->
  let s := run pa ls (init l c0) in
  nth_error (s_ws s) i = Some w -> settled s w -> w_S w = R + 1 ->
  R <= R' -> R' <= s_committed s ->
  apply_events (filter (fun e => e_rev e <=? R') (concat (w_got w))) (in_prefix (w_P w) (snapshot (snd (exec c0 h)) R))
  = in_prefix (w_P w) (snapshot (snd (exec c0 h)) R').
Proof. exact list_then_watch. Qed.
Print Assumptions C06_list_then_watch.

(* the composed statement for any resolved slot sequence numbered c0+1, c0+2, ... — concurrent writers included (the slot
   of revision r is what the writer that was dealt r reported, in whatever order the writers finished); the range
   results are the MVCC snapshots of the versions those slots stored *)
Theorem C06_list_then_watch_slots : forall pa l c0 slots ls i w R R', 0 < l -> numbered c0 slots ->
  (forall we, In (LSeqTake we) ls -> In we slots) ->
  let s := run pa ls (init l c0) in
  nth_error (s_ws s) i = Some w -> settled s w -> w_S w = R + 1 ->
  R <= R' -> R' <= s_committed s ->
  apply_events (filter (fun e => e_rev e <=? R') (concat (w_got w))) (in_prefix (w_P w) (snapshot (versions_of slots) R))
  = in_prefix (w_P w) (snapshot (versions_of slots) R').
Proof. exact list_then_watch_slots. Qed.
Print Assumptions C06_list_then_watch_slots.

(* ---------- non-vacuity ---------- *)

Definition k1 : bytes := [47; 97; 47; 120].   (* "/a/x" *)
Definition k2 : bytes := [47; 98; 47; 121].   (* "/b/y" *)
(* create k1, failed create k1, update k1, create k2, refused update (engine), delete k1, create k1 again *)
Definition h6 : list attempt :=
  [mkAtt (WCreate k1 [1]) true; mkAtt (WCreate k1 [2]) true; mkAtt (WUpdate k1 [3] 101) true;
   mkAtt (WCreate k2 [4]) true; mkAtt (WUpdate k2 [5] 104) false; mkAtt (WDelete k1 0) true;
   mkAtt (WCreate k1 [7]) true].

Example C06_history_mixed :
  map we_valid (fst (exec 100 h6)) = [true; false; true; true; false; true; true] /\
  map e_rev (events_of (fst (exec 100 h6))) = [101; 103; 104; 106; 107] /\
  in_prefix [47; 97] (snapshot (snd (exec 100 h6)) 103) = [(k1, ([3], 103))] /\
  in_prefix [47; 97] (snapshot (snd (exec 100 h6)) 106) = [] /\
  apply_events (filter (in_window 103 107 [47; 97]) (events_of (fst (exec 100 h6)))) (in_prefix [47; 97] (snapshot (snd (exec 100 h6)) 103))
    = [(k1, ([7], 107))].
Proof. vm_compute. repeat split. Qed.

(* a compaction at floor 106 that removes the versions 101, 103 and the tombstone 106 satisfies the rule *)
Example C06_compaction_inhabited :
  let V := snd (exec 100 h6) in
  let keep := fun x : version => negb ((v_rev x =? 101) || (v_rev x =? 103) || (v_rev x =? 106)) in
  forallb (fun x => keep x || (removable V 106 x &&
                   forallb (fun y => negb (beqb (v_key y) (v_key x) && (v_rev y <? v_rev x)) || negb (keep y)) V)) V = true /\
  snapshot (filter keep V) 106 = snapshot V 106 /\ length (filter keep V) = 2%nat.
Proof. vm_compute. repeat split. Qed.

(* removing the tombstone but not the version under it is NOT allowed by the rule, and would resurrect the key *)
Example C06_rule_needed :
  let V := snd (exec 100 h6) in
  let keep := fun x : version => negb (v_rev x =? 106) in
  snapshot (filter keep V) 106 <> snapshot V 106.
Proof. vm_compute. discriminate. Qed.

(* the producer fed with these slots, interleaved with hub items *)
Example C06_producer_inhabited :
  let slots := fst (exec 100 h6) in
  let ls := flat_map (fun we => [LSeqTake we; LSeqCache; LSeqSend; LHubItem []]) slots in
  let s := run real_params ls (init 3 100) in
  s_committed s = 107 /\ map e_rev (s_cached s) = [101; 103; 104; 106; 107].
Proof. vm_compute. repeat split. Qed.

(* C06_check_sound on a concrete case of the "border on a version record" kind: K = /a/x created at 101, updated at
   103 (the advertised border), listed at 104, deleted at 106; the partitioned and the limited read at 107 agree with
   the replay. The same case with the key resurfacing in the limited read (what the two-pass border adjustment did)
   fails both the check and the oracle. *)
Example C06_check_sound_inhabited :
  let slots := fst (exec 100 h6) in
  let evs := filter (in_window 104 top [47; 97]) (events_of slots) in
  let good := KLw [47; 97] slots 104 [(k1, ([3], 103))] true evs [(107, [(k1, ([7], 107))]); (106, [])] in
  let bad := KLw [47; 97] slots 104 [(k1, ([3], 103))] true evs [(106, [(k1, ([1], 101))])] in
  c06_validb good = true /\ c06_check good = true /\ c06_oracle good = None /\
  c06_check bad = false /\ c06_oracle bad = Some 0.
Proof. vm_compute. repeat split. Qed.

(* C06_list_then_watch is not vacuous: history h6 through the watch system with a watcher on "/a" started at 104
   (R = 103) after the first three slots were cached; at the end its stream is open and settled, committed = 107, and
   replaying what it received over the list at 103 gives the lists at 106 and 107 *)
Example C06_list_then_watch_inhabited :
  let slots := fst (exec 100 h6) in
  let feed := fun we => [LSeqTake we; LSeqCache; LSeqSend; LHubItem []] in
  let ls := flat_map feed (firstn 3 slots) ++ [LWatchSub 104 [47; 97]; LWatchRead 0; LWatchSpawn 0] ++
            flat_map feed (skipn 3 slots) ++ [LProc 0; LProc 0; LConsume 0; LProc 0; LProc 0; LConsume 0; LProc 0; LProc 0; LConsume 0] in
  let s := run real_params ls (init 3 100) in
  (forall we, In (LSeqTake we) ls -> In we slots) /\
  match nth_error (s_ws s) 0 with
  | Some w => w_S w = 103 + 1 /\ s_committed s = 107 /\ map e_rev (concat (w_got w)) = [106; 107] /\
              s_cur s = None /\ s_pending s = [] /\ s_wchan s = [] /\ w_phase w = PhRun /\
              c_buf (w_sub w) = [] /\ c_closed (w_sub w) = false /\ w_hold w = None /\
              c_buf (w_out w) = [] /\ c_closed (w_out w) = false /\
              apply_events (filter (fun e => e_rev e <=? 106) (concat (w_got w))) (in_prefix [47; 97] (snapshot (snd (exec 100 h6)) 103)) = [] /\
              apply_events (filter (fun e => e_rev e <=? 107) (concat (w_got w))) (in_prefix [47; 97] (snapshot (snd (exec 100 h6)) 103)) = [(k1, ([7], 107))]
  | None => False
  end.
Proof.
  split.
  - intros we H. vm_compute in H. vm_compute. repeat (destruct H as [H|H]; [inversion H; subst; auto 10|]). destruct H.
  - vm_compute. repeat split.
Qed.

(* ---------- the bridge to the concurrent write model (Model/KeySys.v, package D; imported read-only) ----------
   C06_events_are_versions speaks about the slots the sequencer takes; C06_replay_slots about events and versions as two
   projections of one resolved slot sequence. What ties a slot reported VALID to a version that was really STORED, for
   concurrent writers, is this statement over KeySys' ghost log — every reachable state, any interleaving of client
   threads (create / update / delete / the retry loop's rewrite), engine outcomes and sequencer:
     a valid notification (ENotified t rev true: the slot of revision rev is filled with Valid = true) has an applied
     commit of the same thread at the same revision (EApplied t _ k _ rev _ _ _: index record and version record rev
     written) — no event without a version; and an applied commit has its valid notification, or its thread is the
     write in flight at notify(k, rev, ok) — no version without an event.
   Not stated here: that key, verb and value of the slot equal those of the applied commit (KeySys' slots carry only
   revision and validity; key/value/verb are checked per case: kv0 / lists / delete_slots_ok in c06_check). *)
Theorem C06_events_iff_applied : forall cidx0 ls d0 store,
  let s := KeySys.krun cidx0 ls (KeySys.kinit d0 store) in
  (forall t rev, In (KeySys.ENotified t rev true) (KeySys.log s) -> exists k, C06KeySysBridge.applied_in (KeySys.log s) t k rev) /\
  (forall t q k a rev f v p, In (KeySys.EApplied t q k a rev f v p) (KeySys.log s) ->
     In (KeySys.ENotified t rev true) (KeySys.log s) \/ exists w old, KeySys.thr s t = KeySys.PNotify w k rev KeySys.ROk old).
Proof. exact C06KeySysBridge.events_iff_applied. Qed.
Print Assumptions C06_events_iff_applied.

(* a create through KeySys: after the commit the write is in flight at notify(5, 11, ok) with its EApplied logged and no
   notification yet; after notify both entries are in the log *)
Example C06_events_iff_applied_inhabited :
  let st0 := KeySys.kinit 10 (fun _ => KeySys.k_empty) in
  let lbs := [KeySys.LInvoke 1 (KeySys.RqCreate 5 [1]); KeySys.LDeal 1; KeySys.LEngine 1 KeySys.EnvOk; KeySys.LNotify 1] in
  KeySys.thr (KeySys.krun true (firstn 3 lbs) st0) 1 = KeySys.PNotify KeySys.WCreate 5 11 KeySys.ROk ([], 0) /\
  In (KeySys.EApplied 1 (Some (KeySys.RqCreate 5 [1])) 5 KeySys.ACreate 11 false [1] None) (KeySys.log (KeySys.krun true (firstn 3 lbs) st0)) /\
  ~ In (KeySys.ENotified 1 11 true) (KeySys.log (KeySys.krun true (firstn 3 lbs) st0)) /\
  In (KeySys.ENotified 1 11 true) (KeySys.log (KeySys.krun true lbs st0)).
Proof.
  vm_compute. repeat split; auto. intros [H|[H|[H|[]]]]; discriminate H.
Qed.

(* ---------- fault cases (KLf): the oracle's statement is a theorem about the retry system (Model/RetrySys.v) ----------
   KLf cases are evaluated by the oracle only (c06_check = true on them): the writes as resolved are not known from the
   responses.  What the model of unknown outcomes predicts for them: take ANY run of RetrySys (any interleaving of client
   requests, sequencer, retry loop, compactions' cap; unknown outcomes applied or not on any commit incl. the creator's
   second commit and the repair commit; definite failures), a range read served in any reachable state s0, a later
   quiescent state s (retry queue drained, nothing in flight), any later state sF (the watch may have delivered more).
   Read off as a KLf case through an injective key encoding (Model/C06Faults.v klf_of: first range read at the committed
   revision of s0, the watch's events above it under P up to sF, final range read at the committed revision of s),
   c06_oracle accepts: the stream is strictly increasing above R0 within P, and replaying the events up to Rf over the
   first range result gives the final one.   [<- C09_converges (converges_core), Proofs/C06Faults.v]
   ks: the model keys the range reads cover; every other key has no version or lies outside P.
   Not covered by this statement: the deletions a compaction performs inside the retry window (RetrySys computes
   Backend.Compact's capped revision only: C09_compact_capped; that removing versions at or below a floor <= R0 changes no
   read at R >= floor is C06_compaction_preserves_snapshot) and the watch pipeline after the sequencer (C05). *)
Theorem C06_fault_cases_converge : forall enc, (forall a b : RetrySys.key, enc a = enc b -> a = b) ->
  forall q ks P s0 s sF,
  RetryProps.reach q s0 -> Proofs.C09Cases.leads s0 s -> RetryInvX.quiescent s -> Proofs.C09Cases.leads s sF ->
  (forall k, ~ In k ks -> RetryInv2.vers s k = [] \/ has_prefix P (enc k) = false) ->
  c06_oracle (Model.C06Faults.klf_of enc ks P s0 s sF) = None.
Proof. exact Proofs.C06Faults.klf_converges. Qed.
Print Assumptions C06_fault_cases_converge.

Theorem C06_fault_cases_converge_run : forall enc r0 ks P ls0 ls1 lsF,
  (forall a b : RetrySys.key, enc a = enc b -> a = b) ->
  Forall RetryInv2.wf_label ls0 -> Forall RetryInv2.wf_label ls1 -> Forall RetryInv2.wf_label lsF ->
  let s0 := RetrySys.run (RetrySys.init_state r0) ls0 in let s := RetrySys.run s0 ls1 in let sF := RetrySys.run s lsF in
  RetrySys.quiescentb s = true ->
  (forall k, ~ In k ks -> RetryInv2.vers s k = [] \/ has_prefix P (enc k) = false) ->
  c06_oracle (Model.C06Faults.klf_of enc ks P s0 s sF) = None.
Proof. exact Proofs.C06Faults.klf_converges_run. Qed.
Print Assumptions C06_fault_cases_converge_run.

Example C06_fault_cases_inhabited :
  c06_oracle (Model.C06Faults.klf_of Model.C06Faults.enc_ex [0; 1; 2; 3] Model.C06Faults.prefix_ex
                Proofs.C06Faults.ex_s0 Proofs.C06Faults.ex_s Proofs.C06Faults.ex_s) = None /\
  match Model.C06Faults.klf_of Model.C06Faults.enc_ex [0; 1; 2; 3] Model.C06Faults.prefix_ex
          Proofs.C06Faults.ex_s0 Proofs.C06Faults.ex_s Proofs.C06Faults.ex_s with
  | KLf _ R0 kv0 evs Rf kvf =>
      R0 = 12 /\ length kv0 = 2%nat /\ map e_rev evs = [17; 18] /\ Rf = 18 /\ kvf = [([47; 114; 47; 97], (RetryWitness.v2, 18))] /\
      RetrySys.s_dealt Proofs.C06Faults.ex_s0 = 14
  | _ => False
  end.
Proof. exact Proofs.C06Faults.klf_example. Qed.

(* the same with the deletions of compactions interleaved anywhere — also inside the retry window (Model/RetryCompact.v:
   XDel k r R removes version record (k, r) under C07_safe_remove's premise at a revision R that Backend.Compact may use,
   i.e. at most the committed revision and below every queued revision: C09_compact_capped).  p0: where the first range
   read is served; p: a later quiescent state; pF: any later state.  ks enumerates the model keys under P. *)
Theorem C06_fault_cases_converge_compaction : forall enc r0 ks P xs0 xs1 xsF,
  (forall a b : RetrySys.key, enc a = enc b -> a = b) ->
  let p0 := RetryCompact.xrun (RetrySys.init_state r0) xs0 in let p := RetryCompact.xrun p0 xs1 in let pF := RetryCompact.xrun p xsF in
  Proofs.RetryCompact.xwf_all (RetrySys.init_state r0) xs0 -> Proofs.RetryCompact.xwf_all p0 xs1 -> Proofs.RetryCompact.xwf_all p xsF ->
  RetrySys.quiescentb p = true ->
  (forall k, ~ In k ks -> has_prefix P (enc k) = false) ->
  c06_oracle (Model.C06Faults.klf_of enc ks P p0 p pF) = None.
Proof. exact RetryCompactThms.xklf_converges. Qed.
Print Assumptions C06_fault_cases_converge_compaction.

(* the hypotheses of C06_compaction_preserves_reads / _snapshot on the compaction of C06_compaction_inhabited *)
Example C06_compaction_hypotheses_inhabited :
  let V := snd (exec 100 h6) in
  let keep := fun x : version => negb ((v_rev x =? 101) || (v_rev x =? 103) || (v_rev x =? 106)) in
  newest_first V /\ compaction_rule V 106 keep /\ 106 <= 107.
Proof.
  split; [apply newest_firstb_ok; vm_compute; reflexivity|]. split; [apply compaction_ruleb_ok; vm_compute; reflexivity|].
  vm_compute. discriminate.
Qed.

(* `numbered` and `sorted (events_of slots)` on a slot sequence that is NOT produced by the sequential write model:
   two writers finished out of order (revision 12 resolved before 11 finished, one write failed), slots listed by
   revision; C06_replay_slots and C06_list_then_watch_slots apply to it *)
Definition conc_slots : list wevent :=
  [mkWe 11 0 true VCreate k1 [1]; mkWe 12 0 true VCreate k2 [2]; mkWe 13 11 false VPut k1 [9]; mkWe 14 12 true VDelete k2 [2]].
Example C06_numbered_inhabited :
  numbered 10 conc_slots /\ sorted (events_of conc_slots) /\
  apply_events (filter (in_window 11 14 []) (events_of conc_slots)) (in_prefix [] (snapshot (versions_of conc_slots) 11))
  = in_prefix [] (snapshot (versions_of conc_slots) 14).
Proof.
  split; [apply numberedb_ok; vm_compute; reflexivity|]. split; [apply ev_sortedb_sorted; vm_compute; reflexivity|].
  vm_compute. reflexivity.
Qed.

(* a fault case as the driver emits it passes the structural check c06_check evaluates on KLf cases (klf_wf); a final
   range result out of key order does not *)
Example C06_klf_check_inhabited :
  c06_check (KLf [47; 97] 104 [(k1, ([3], 103))] [mkEv VDelete 106 k1 [3] 103] 107 []) = true /\
  c06_oracle (KLf [47; 97] 104 [(k1, ([3], 103))] [mkEv VDelete 106 k1 [3] 103] 107 []) = None /\
  c06_check (KLf [47] 104 [] [] 107 [(k2, ([4], 104)); (k1, ([3], 103))]) = false.
Proof. vm_compute. repeat split. Qed.
