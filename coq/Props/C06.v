(* C06 — List-then-watch reconstructs the store.
   Property theorems only: each is closed by `exact <lemma>` and followed by Print Assumptions.
   Models: Model/C06Cases.v (versions, MVCC snapshot, sequential write model over arbitrary histories of
   successful and failed writes, event replay, compaction rule) and the producer of Model/WatchSys.v. *)
From KB Require Import Base.Cases Model.WatchSys Model.C06Cases Proofs.WatchSys Proofs.C06.
Local Open Scope N_scope.

(* In every reachable state of the watch system — all label lists, all parameters — whose sequencer is fed from
   a slot sequence numbered c0+1, c0+2, ..., the events ever cached (plus the one already built, committed and
   about to be cached) are exactly `map to_event` of the successful slots with revision <= committed, in order:
   one event per successful write, same revision, none for a failed write. *)
Theorem C06_events_are_versions : forall pa l c0 slots ls,
  numbered c0 slots -> (forall we, In (LSeqTake we) ls -> In we slots) ->
  let s := run pa ls (init l c0) in
  s_cached s ++ cur_list s = events_of (firstn (N.to_nat (s_committed s - c0)) slots).
Proof. exact events_are_versions. Qed.
Print Assumptions C06_events_are_versions.

(* ... in particular for the slots of the sequential write model, whose stored versions are those of its slots *)
Theorem C06_events_are_versions_exec : forall pa l c0 h ls,
  (forall we, In (LSeqTake we) ls -> In we (fst (exec c0 h))) ->
  let s := run pa ls (init l c0) in
  s_cached s ++ cur_list s = events_of (firstn (N.to_nat (s_committed s - c0)) (fst (exec c0 h))) /\
  snd (exec c0 h) = versions_of (fst (exec c0 h)).
Proof. exact events_are_versions_exec. Qed.
Print Assumptions C06_events_are_versions_exec.

(* a delete event carries the value and the modification revision it superseded *)
Theorem C06_delete_carries_prev : forall V r a,
  let '(we, _) := exec_one V r a in
  we_valid we = true -> we_verb we = VDelete -> live V (we_key we) top = Some (we_val we, we_prev we).
Proof. exact delete_carries_prev. Qed.
Print Assumptions C06_delete_carries_prev.

(* replay: for every history of successful and failed writes, all R <= R' and every prefix P, applying the
   events of (R, R'] on P to the range result at R gives the range result at R' *)
Theorem C06_replay : forall c0 h R R' P, R <= R' ->
  apply_events (filter (in_window R R' P) (events_of (fst (exec c0 h)))) (in_prefix P (snapshot (snd (exec c0 h)) R))
  = in_prefix P (snapshot (snd (exec c0 h)) R').
Proof. exact replay_exec_equal. Qed.
Print Assumptions C06_replay.

(* the same for any resolved slot sequence with revision-sorted events (concurrent writers) *)
Theorem C06_replay_slots : forall slots R R' P, sorted (events_of slots) -> R <= R' ->
  apply_events (filter (in_window R R' P) (events_of slots)) (in_prefix P (snapshot (versions_of slots) R))
  = in_prefix P (snapshot (versions_of slots) R').
Proof. exact replay_equal. Qed.
Print Assumptions C06_replay_slots.

(* a read is the replay of all events up to its revision *)
Theorem C06_read_is_replay : forall slots k R,
  live (versions_of slots) k R = fold_left (eff k) (filter (upto R) (events_of slots)) None.
Proof. exact live_is_replay. Qed.
Print Assumptions C06_read_is_replay.

(* compaction (also partial / still running) with floor <= R removes only superseded versions and tombstones of
   revision <= floor, older versions of a key going with the newer removed one: every read and every snapshot at
   R is unchanged; the events do not depend on the stored versions at all *)
Theorem C06_compaction_preserves_reads : forall V floor keep k R,
  newest_first V -> compaction_rule V floor keep -> floor <= R ->
  live (filter keep V) k R = live V k R.
Proof. exact compaction_preserves_reads. Qed.
Print Assumptions C06_compaction_preserves_reads.

Theorem C06_compaction_preserves_snapshot : forall V floor keep R,
  newest_first V -> compaction_rule V floor keep -> floor <= R ->
  snapshot (filter keep V) R = snapshot V R.
Proof. exact compaction_preserves_snapshot_equal. Qed.
Print Assumptions C06_compaction_preserves_snapshot.

(* the executable oracle accepts everything the model produces *)
Theorem C06_oracle_sound : forall c, c06_valid c -> c06_check c = true -> c06_oracle c = None.
Proof. exact c06_oracle_sound. Qed.
Print Assumptions C06_oracle_sound.

(* ---------- non-vacuity ---------- *)

Definition k1 : bytes := [47; 97; 47; 120].   (* "/a/x" *)
Definition k2 : bytes := [47; 98; 47; 121].   (* "/b/y" *)
(* create k1, failed create k1, update k1, create k2, refused update (engine), delete k1, create k1 again *)
Definition h6 : list attempt :=
  [mkAtt (WCreate k1 [1]) true; mkAtt (WCreate k1 [2]) true; mkAtt (WUpdate k1 [3] 101) true;
   mkAtt (WCreate k2 [4]) true; mkAtt (WUpdate k2 [5] 104) false; mkAtt (WDelete k1 0) true;
   mkAtt (WCreate k1 [7]) true].

Example C06_history_mixed :
  map we_valid (fst (exec 100 h6)) = [true; false; true; true; false; true; true] /\
  map e_rev (events_of (fst (exec 100 h6))) = [101; 103; 104; 106; 107] /\
  in_prefix [47; 97] (snapshot (snd (exec 100 h6)) 103) = [(k1, ([3], 103))] /\
  in_prefix [47; 97] (snapshot (snd (exec 100 h6)) 106) = [] /\
  apply_events (filter (in_window 103 107 [47; 97]) (events_of (fst (exec 100 h6)))) (in_prefix [47; 97] (snapshot (snd (exec 100 h6)) 103))
    = [(k1, ([7], 107))].
Proof. vm_compute. repeat split. Qed.

(* a compaction at floor 106 that removes the versions 101, 103 and the tombstone 106 satisfies the rule *)
Example C06_compaction_inhabited :
  let V := snd (exec 100 h6) in
  let keep := fun x : version => negb ((v_rev x =? 101) || (v_rev x =? 103) || (v_rev x =? 106)) in
  forallb (fun x => keep x || (removable V 106 x &&
                   forallb (fun y => negb (beqb (v_key y) (v_key x) && (v_rev y <? v_rev x)) || negb (keep y)) V)) V = true /\
  snapshot (filter keep V) 106 = snapshot V 106 /\ length (filter keep V) = 2%nat.
Proof. vm_compute. repeat split. Qed.

(* removing the tombstone but not the version under it is NOT allowed by the rule, and would resurrect the key *)
Example C06_rule_needed :
  let V := snd (exec 100 h6) in
  let keep := fun x : version => negb (v_rev x =? 106) in
  snapshot (filter keep V) 106 <> snapshot V 106.
Proof. vm_compute. discriminate. Qed.

(* the producer fed with these slots, interleaved with hub items *)
Example C06_producer_inhabited :
  let slots := fst (exec 100 h6) in
  let ls := flat_map (fun we => [LSeqTake we; LSeqCache; LSeqSend; LHubItem []]) slots in
  let s := run real_params ls (init 3 100) in
  s_committed s = 107 /\ map e_rev (s_cached s) = [101; 103; 104; 106; 107].
Proof. vm_compute. repeat split. Qed.
