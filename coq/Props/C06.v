(* C06 — List-then-watch reconstructs the store. *)
From KB Require Import Base.Cases Model.WatchSys Model.C06Cases.
Local Open Scope N_scope.
Example C06_placeholder : top = 18446744073709551615.
Proof. reflexivity. Qed.
