(* C04 — Every issued revision is resolved: reads never overtake a write and never stall.
   Property theorems only. *)
From KB Require Import Model.RevSys Proofs.RevSys.
Local Open Scope N_scope.

(* RevSys level: any number of threads allocating and reporting in any order, the sequencer's
   five atomic actions interleaved anywhere *)
Theorem C04_rev_no_overtake : forall ls d0 t r,
  In r (held (rrun ls (rinit d0)) t) -> committed (rrun ls (rinit d0)) < r.
Proof. intros ls d0 t r. apply held_above_committed, rinv_reachable. Qed.
Print Assumptions C04_rev_no_overtake.

Theorem C04_rev_quiescent_caught_up : forall ls d0,
  rquiescent (rrun ls (rinit d0)) -> committed (rrun ls (rinit d0)) = dealt (rrun ls (rinit d0)).
Proof. intros ls d0. apply quiescent_caught_up, rinv_reachable. Qed.
Print Assumptions C04_rev_quiescent_caught_up.
