(* C04 — Every issued revision is resolved: reads never overtake a write and never stall.
   Property theorems only: each is closed by `exact <lemma>` and followed by Print Assumptions.

   reach cidx0 d0 store s  :=  wf_store d0 store /\ exists ls, s = krun cidx0 ls (kinit d0 store)
   i.e. s is the state after an arbitrary list of labels (any interleaving of any number of client
   threads running Create / Update / Delete and of asynchronous rewrites, any request inputs, any
   environment choice per engine call, sequencer iterations anywhere) from any well-formed store. *)
From KB Require Import Model.RevSys Model.KeySys Model.C01Cases Model.C04Cases.
From KB Require Import Proofs.RevSys Proofs.KeySys Proofs.KeySysLog Proofs.KeySysProps Proofs.KeySysUniq Proofs.SchedCases Proofs.SchedLink Proofs.RevSysBlock Proofs.SchedCount Proofs.SchedHold.
Local Open Scope N_scope.

(* ----- RevSys: threads allocate and report in any order; tso.Commit is three atomic steps ----- *)

Theorem C04_rev_no_overtake : forall ls d0 t r,
  In r (held (rrun ls (rinit d0)) t) -> committed (rrun ls (rinit d0)) < r.
Proof. exact rev_no_overtake. Qed.
Print Assumptions C04_rev_no_overtake.

Theorem C04_rev_quiescent_caught_up : forall ls d0,
  rquiescent (rrun ls (rinit d0)) -> committed (rrun ls (rinit d0)) = dealt (rrun ls (rinit d0)).
Proof. exact rev_quiescent_caught_up. Qed.
Print Assumptions C04_rev_quiescent_caught_up.

(* the conditional CAS of tso.Commit never changes the allocation counter *)
Theorem C04_rev_commit_keeps_dealt : forall ls d0 l,
  dealt (rstep (rrun ls (rinit d0)) l) =
  match l with RDeal _ => if rpanic (rrun ls (rinit d0)) then dealt (rrun ls (rinit d0)) else dealt (rrun ls (rinit d0)) + 1
          | _ => dealt (rrun ls (rinit d0)) end.
Proof. exact rev_commit_keeps_dealt. Qed.
Print Assumptions C04_rev_commit_keeps_dealt.

(* who blocks the reader, with the sequencer's six actions interleaved anywhere: the sequencer idle, its next slot
   empty and revisions outstanding => the very next revision is held by a thread *)
Theorem C04_rev_blocked_by_holder : forall ls d0, let s := rrun ls (rinit d0) in
  seq s = SqIdle -> slots s ((committed s + 1) mod cap) = None -> committed s < dealt s ->
  exists t, In (committed s + 1) (held s t).
Proof. exact rev_blocked_by_holder. Qed.
Print Assumptions C04_rev_blocked_by_holder.

(* the buffer-full panic (txn.go:289-292) happens only with cap = 100000 revisions outstanding *)
Theorem C04_rev_panic_only_when_full : forall ls d0, let s := rrun ls (rinit d0) in
  rpanic s = true -> cap <= dealt s - committed s.
Proof. exact rev_panic_only_when_full. Qed.
Print Assumptions C04_rev_panic_only_when_full.

(* ----- KeySys: the request programs ----- *)

(* every allocated revision that has not been reported yet (in particular: whose owner has not
   finished its engine commit) is above the revision reads are served at *)
Theorem C04_no_overtake : forall cidx0 d0 store s, reach cidx0 d0 store s ->
  forall t r, pc_rev (thr s t) = Some r -> committed (rs s) < r.
Proof. exact k_no_overtake. Qed.
Print Assumptions C04_no_overtake.

(* every path of every request kind, for every input and environment choice: what a thread has
   allocated and not reported is exactly the revision its program counter still carries to notify *)
Theorem C04_paths_report : forall cidx0 d0 store s, reach cidx0 d0 store s ->
  forall t, held (rs s) t = held_of (thr s t).
Proof. exact k_paths_report. Qed.
Print Assumptions C04_paths_report.

(* … so nothing is unreported when the response is handed out *)
Theorem C04_paths_report_at_return : forall cidx0 d0 store s, reach cidx0 d0 store s ->
  forall t, enabled s (LReturn t) = true -> held (rs s) t = [].
Proof. exact k_return_resolved. Qed.
Print Assumptions C04_paths_report_at_return.

(* the same on the ghost log: at every EReturn entry, every EDealt of that thread has its ENotified *)
Theorem C04_paths_report_log : forall cidx0 d0 store s, reach cidx0 d0 store s -> returns_clean (log s).
Proof. exact k_returns_clean. Qed.
Print Assumptions C04_paths_report_log.

(* no thread in flight, the sequencer has nothing to take, no buffer-full panic: reads have caught up *)
Theorem C04_quiescent_caught_up : forall cidx0 d0 store s, reach cidx0 d0 store s ->
  (forall t, pc_rev (thr s t) = None) -> enabled s LSeqTake = false -> rpanic (rs s) = false ->
  committed (rs s) = dealt (rs s).
Proof. exact k_quiescent. Qed.
Print Assumptions C04_quiescent_caught_up.

(* the precise blocking statement: no panic, nothing for the sequencer to take, revisions outstanding => the
   reader is held back exactly by the thread in flight that carries the very next revision. With
   C04_paths_report_at_return (and C04_returned_blocks_nobody): a request that has been answered blocks nobody *)
Theorem C04_blocked_by_holder : forall cidx0 d0 store s, reach cidx0 d0 store s ->
  rpanic (rs s) = false -> enabled s LSeqTake = false -> committed (rs s) < dealt (rs s) ->
  exists t, pc_rev (thr s t) = Some (committed (rs s) + 1).
Proof. exact k_blocked_by_holder. Qed.
Print Assumptions C04_blocked_by_holder.
Theorem C04_returned_blocks_nobody : forall cidx0 d0 store s, reach cidx0 d0 store s ->
  forall t, enabled s (LReturn t) = true -> pc_rev (thr s t) = None.
Proof. exact k_returned_blocks_nobody. Qed.
Print Assumptions C04_returned_blocks_nobody.

(* the panic outcome is bounded: it needs cap = 100000 allocated revisions ahead of the read revision *)
Theorem C04_panic_only_when_full : forall cidx0 d0 store s, reach cidx0 d0 store s ->
  rpanic (rs s) = true -> cap <= dealt (rs s) - committed (rs s).
Proof. exact k_panic_only_when_full. Qed.
Print Assumptions C04_panic_only_when_full.

Theorem C04_seq_take : forall cidx0 d0 store s, reach cidx0 d0 store s -> enabled s LSeqTake = true ->
  let s' := kstep cidx0 s LSeqTake in
  dealt (rs s') = dealt (rs s) /\ committed (rs s') = committed (rs s) + 1.
Proof. exact k_seq_take. Qed.
Print Assumptions C04_seq_take.

(* the oracle lemma for schedule cases. Full statement (not proved, see "gaps"): *)
Definition C04_oracle_sound_full_statement : Prop :=
  forall c, c04_check c = true -> progress_ok c = true.
(* proved clauses of progress_ok: the samples never decrease, stay below the marker revision, the node did
   not stall and reached the marker *)
Theorem C04_oracle_samples_sound_partial : forall c, sched_check c = true ->
  monotone_from (sc_d0 c) (samples c) = true /\
  forallb (fun x => x <? sc_marker c) (samples c) = true /\
  sc_stalled c = false /\ (sc_final_committed c =? sc_marker c) = true.
Proof. exact sched_samples_sound_checked. Qed.
Print Assumptions C04_oracle_samples_sound_partial.

(* proved clause no_overtake_rec: for every request record whose answer carries its revision x and whose last
   batch commit ran in step c, every GetCurrentRevision() sample taken before step c is below x. The proof couples the
   oracle's walk over the scheduler trace with the model run (Proofs/SchedLink.v): a revision that is still
   unresolved (not yet allocated, or held by a thread) is above every sample taken so far, and the revision the
   answer carries is the one the thread held when it stood before that commit *)
Theorem C04_oracle_no_overtake_sound_partial : forall c, sched_check c = true ->
  forallb (no_overtake_rec c) (case_records c) = true.
Proof. exact sched_no_overtake_sound_checked. Qed.
Print Assumptions C04_oracle_no_overtake_sound_partial.

(* proved clause records_complete: every request of the case got exactly one record (the oracle's walk pops the
   request a response belongs to from the same queue the model invokes from) *)
Theorem C04_oracle_records_complete_sound_partial : forall c, sched_check c = true ->
  records_complete c (case_records c) = true.
Proof. exact sched_records_complete_sound_checked. Qed.
Print Assumptions C04_oracle_records_complete_sound_partial.

(* proved clause, the revision count: every client request of the case was stamped with exactly one revision, every
   repair with at most one — initial + clients + 1 <= marker <= initial + requests + 1. Model side
   (Proofs/SchedCount.v): the allocation counter plus the requests still to be stamped (queued, or in flight before
   their Deal) never exceeds initial + requests, and plus the client requests still to be stamped never falls below
   initial + clients *)
Theorem C04_oracle_revision_count_sound_partial : forall c, sched_check c = true ->
  (sc_d0 c + N.of_nat (nclient c) + 1 <=? sc_marker c) && (sc_marker c <=? sc_d0 c + N.of_nat (nreqs c) + 1) = true.
Proof. exact sched_revcount_sound_checked. Qed.
Print Assumptions C04_oracle_revision_count_sound_partial.

(* proved part of the clause hold_ok: for every record whose answer carries its revision x and whose commit was held
   inside the engine during step j (step kind KHold), every sample up to and including step j is below x — at a KHold
   step the model thread stands before its commit, so x is unresolved. (For error answers hold_ok reads the revision
   off the final dump by the request's value; that half is not proved, see gaps.) *)
Theorem C04_oracle_hold_exact_sound_partial : forall c, sched_check c = true ->
  forallb (hold_exact_ok c) (case_records c) = true.
Proof. exact sched_hold_exact_sound_checked. Qed.
Print Assumptions C04_oracle_hold_exact_sound_partial.

(* once resolved (allocated and held by nobody), a revision stays resolved *)
Theorem C04_resolved_stays_resolved : forall cidx0 s l x, kinv s -> unresolved (kstep cidx0 s l) x -> unresolved s x.
Proof. exact unresolved_step. Qed.
Print Assumptions C04_resolved_stays_resolved.

(* ----- non-vacuity ----- *)

(* a reachable state with a write held before its commit while a later one is already readable *)
Example C04_ex_reach : reach true 10 ex_store ex_state.
Proof. exact ex_reach. Qed.
Example C04_ex_held : pc_rev (thr ex_state 2) = Some 13 /\ held (rs ex_state) 2 = [13] /\ committed (rs ex_state) = 12
  /\ enabled ex_state (LReturn 1) = true /\ held (rs ex_state) 1 = [].
Proof. vm_compute. repeat split. Qed.
(* drift path (fix 83355f7): Update with expected revision 2^40 allocates 11, reports it and only then answers *)
Example C04_ex_drift :
  let s := krun true [LInvoke 0 (RqUpdate 0 [9] 1099511627776); LDeal 0] (kinit 10 ex_store) in
  thr s 0 = PNotify WUpdate 0 11 ROther ([], 0) /\ held (rs s) 0 = [11].
Proof. vm_compute. split; reflexivity. Qed.
Example C04_ex_quiescent :
  let s := krun true [LInvoke 0 (RqDelete 2 18446744073709551615); LEngine 0 EnvOk; LDeal 0; LNotify 0; LReturn 0; LSeqTake]
                (kinit 10 ex_store) in
  pc_rev (thr s 0) = None /\ pc_rev (thr s 1) = None /\ enabled s LSeqTake = false /\ rpanic (rs s) = false
  /\ committed (rs s) = 11 /\ dealt (rs s) = 11.
Proof. vm_compute. repeat split. Qed.
(* RevSys runs: a held revision above committed; quiescent after dealing, reporting and the sequencer's six
   actions; the panic reached by 100000 allocations of one thread that reports only the last one *)
Example C04_ex_rev_held :
  held (rrun [RDeal 0; RDeal 1] (rinit 10)) 0 = [11] /\ committed (rrun [RDeal 0; RDeal 1] (rinit 10)) = 10.
Proof. vm_compute. split; reflexivity. Qed.
Example C04_ex_rev_quiescent :
  let s := rrun [RDeal 0; RNotify 0 11 true; RSeq; RSeq; RSeq; RSeq; RSeq; RSeq] (rinit 10) in
  rquiescent s /\ dealt s = 11 /\ committed s = 11.
Proof.
  cbv zeta. split; [|vm_compute; split; reflexivity]. split; [|vm_compute; split; reflexivity].
  intros t. vm_compute. destruct t; reflexivity.
Qed.
Example C04_ex_rev_panic :
  let s := rrun (repeat (RDeal 0) (N.to_nat 100000) ++ [RNotify 0 100010 true]) (rinit 10) in
  rpanic s = true /\ dealt s = 100010 /\ committed s = 10.
Proof. vm_compute. repeat split; reflexivity. Qed.
(* the sequencer has something to take (hypothesis of C04_seq_take) *)
Example C04_ex_seq_take :
  let s := krun true [LInvoke 0 (RqDelete 2 18446744073709551615); LEngine 0 EnvOk; LDeal 0; LNotify 0] (kinit 10 ex_store) in
  enabled s LSeqTake = true /\ committed (rs s) = 10 /\ committed (rs (kstep true s LSeqTake)) = 11.
Proof. vm_compute. repeat split; reflexivity. Qed.
(* the hypotheses of C04_blocked_by_holder on the example state: the reader (12) is held back by thread 2,
   which carries 13; 13 is unresolved *)
Example C04_ex_blocked :
  enabled ex_state LSeqTake = false /\ rpanic (rs ex_state) = false /\ committed (rs ex_state) = 12
  /\ dealt (rs ex_state) = 13 /\ pc_rev (thr ex_state 2) = Some 13.
Proof. vm_compute. repeat split; reflexivity. Qed.
Example C04_ex_unresolved : unresolved ex_state 13.
Proof. right. exists 2. vm_compute. left. reflexivity. Qed.
(* the buffer-full panic is an explicit outcome: 100000 unresolved revisions ahead of the read revision *)
Example C04_ex_panic :
  rpanic (r_notify {| dealt := 100010; committed := 10; slots := fun _ => None; seq := SqIdle;
                      held := fun _ => [100010]; rlog := []; rpanic := false |} 0 100010 true) = true.
Proof. vm_compute. reflexivity. Qed.
