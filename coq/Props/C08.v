(* C08 — The compaction floor only rises, and range reads below it are refused.
   Property theorems only: each is closed by `exact <lemma>` and followed by Print Assumptions. *)
From KB Require Import Base.Cases Model.Coder Model.CompactSys Model.C08Cases Proofs.Coder Proofs.CompactFloor Proofs.CompactFloorX.
From KB Require Model.Etcd Proofs.C08Fronts.
Local Open Scope N_scope.

(* the floor (decoded <prefix>/compact_key, 0 when absent) never decreases along any history of
   compaction requests (any revision: increasing, repeated, decreasing, 0, above current; with or
   without a failing commit), write bursts, unknown-outcome writes and reads *)
Theorem C08_floor_monotone : forall ops s,
  cwf s -> c_cur (crun s ops) < two64 -> floor_of (c_rec s) <= floor_of (c_rec (crun s ops)).
Proof. exact floor_monotone. Qed.
Print Assumptions C08_floor_monotone.

(* a compaction answered without error with header revision h (= the clamped request) leaves the
   floor at h or above, immediately and after any further history *)
Theorem C08_accepted_sets_floor : forall s r n ok s' h ops,
  cwf s -> cstep s (CCompact r n ok) = (s', OCompact h COk) -> c_cur (crun s' ops) < two64 ->
  h = clamp (c_cur s) (c_retry s) r /\ h <= floor_of (c_rec s') /\ h <= floor_of (c_rec (crun s' ops)).
Proof. exact accepted_sets_floor. Qed.
Print Assumptions C08_accepted_sets_floor.

(* the same when the compaction is served by another Backend on the same store *)
Theorem C08_accepted_sets_floor_other_backend : forall s r n s' h ops,
  cwf s -> cstep s (CCompact2 r n) = (s', OCompact h COk) -> c_cur (crun s' ops) < two64 ->
  h = clamp (c_cur s) 0 r /\ h <= floor_of (c_rec s') /\ h <= floor_of (c_rec (crun s' ops)).
Proof. exact accepted_sets_floor2. Qed.
Print Assumptions C08_accepted_sets_floor_other_backend.

(* List / limited List / Count / scanner Count / ListByStream served at a revision below the floor
   return the error, and leave the state alone *)
Theorem C08_below_refused : forall s op r,
  cwf s -> read_rev (c_cur s) op = Some r -> r < floor_of (c_rec s) -> cstep s op = (s, ORead RErr).
Proof. exact below_refused. Qed.
Print Assumptions C08_below_refused.

(* the two together, over whole histories *)
Theorem C08_refused_after_accept : forall s r n ok s' h ops op rr,
  cwf s -> cstep s (CCompact r n ok) = (s', OCompact h COk) ->
  c_cur (crun s' ops) < two64 ->
  read_rev (c_cur (crun s' ops)) op = Some rr -> rr < h ->
  snd (cstep (crun s' ops) op) = ORead RErr.
Proof. exact refused_after_accept. Qed.
Print Assumptions C08_refused_after_accept.

(* precision: the floor refuses nothing at or above it *)
Theorem C08_at_or_above_served : forall s op r,
  cwf s -> read_rev (c_cur s) op = Some r -> floor_of (c_rec s) <= r -> cstep s op = (s, ORead RData).
Proof. exact at_or_above_served. Qed.
Print Assumptions C08_at_or_above_served.

(* the record stays a well-formed 8-byte revision and the model never reaches the Uint64 panic *)
Theorem C08_record_wf : forall ops s, cwf s -> c_cur (crun s ops) < two64 -> cwf (crun s ops).
Proof. exact record_wf. Qed.
Print Assumptions C08_record_wf.

(* ---------- overlapping compactions (client Compact requests, the leader's compact loop) ----------
   Every Compact call is a thread advanced one engine call at a time: setCompactRecord = Get, then the Commit of a
   CAS / put-if-absent built against the value read; per range checkCompactRace = Get, then the Commit of a CAS /
   put-if-absent against the value read (re-read on a lost compare, a bounded number of times). Labels of any number of threads interleave with each other and with writes and reads. *)

(* C08_floor_monotone at full strength for this label system: along EVERY interleaving of the engine calls of any
   number of compaction threads with writes and reads, the floor never decreases (every write of the record is a
   compare-and-swap / put-if-absent against a value read at or below the writer's revision; a lost compare is re-read) *)
Theorem C08_floor_monotone_concurrent : forall ops s,
  xwf s -> c_cur (x_c (xrun s ops)) < two64 ->
  xwf (xrun s ops) /\ floor s <= floor (xrun s ops).
Proof. exact floor_monotone_x. Qed.
Print Assumptions C08_floor_monotone_concurrent.

Theorem C08_concurrent_step : forall s op,
  xwf s -> c_cur (x_c (fst (xstep s op))) < two64 ->
  xwf (fst (xstep s op)) /\ floor s <= floor (fst (xstep s op)).
Proof. exact xstep_spec. Qed.
Print Assumptions C08_concurrent_step.

(* a compaction thread that ends without error leaves the floor at or above its (clamped) revision *)
Theorem C08_accepted_sets_floor_concurrent : forall s i ph s' h,
  xwf s -> xstep s (CThread i ph) = (s', OCompact h COk) -> h <= floor s'.
Proof. exact thread_accept. Qed.
Print Assumptions C08_accepted_sets_floor_concurrent.

(* ---------- a range read overlapping compactions: the check of the record, then the scan ----------
   A range read reads the compaction record and, later, opens its iterators. Only TiKV iterators read the snapshot of a
   timestamp taken before the check; memkv copies the range and Badger opens its read transaction when the iterator is
   created. The scan therefore ends with a second read of the record (the repair of finding C08-F2): a compaction records
   its revision before it deletes anything, so a scan that can have missed a deleted version sees the raised floor. *)

(* C08_below_refused for these two-step reads, at full strength: whichever step answers, a read whose revision is below
   the floor of that moment is refused ... *)
Theorem C08_below_refused_concurrent : forall s i rev s' res,
  xwf s -> find_thr i (x_thr s) = Some (TReadScan rev) ->
  xstep s (CReadScan i rev) = (s', ORead res) -> rev < floor s -> res = RErr.
Proof. exact read_scan_refuses. Qed.
Print Assumptions C08_below_refused_concurrent.

(* ... at the check as well; and a read that passes the check was at or above the floor then *)
Theorem C08_below_refused_concurrent_check : forall s i rev,
  xwf s -> find_thr i (x_thr s) = Some (TReadGet rev) ->
  (rev < floor s -> snd (xstep s (CReadCheck i rev)) = ORead RErr) /\
  (snd (xstep s (CReadCheck i rev)) = OWrite -> floor s <= rev).
Proof. exact read_check_spec. Qed.
Print Assumptions C08_below_refused_concurrent_check.

(* C08_refused_after_accept for overlapping compactions, whole histories: once a compaction thread has ended without error at
   revision h then, after ANY interleaving of engine calls of other threads, writes and reads, every range read whose
   revision is below h is refused - in one step ... *)
Theorem C08_refused_after_accept_concurrent : forall s i ph s' h ops op rr,
  xwf s -> xstep s (CThread i ph) = (s', OCompact h COk) -> c_cur (x_c (xrun s' ops)) < two64 ->
  read_rev (c_cur (x_c (xrun s' ops))) op = Some rr -> rr < h ->
  snd (xstep (xrun s' ops) op) = ORead RErr.
Proof. exact refused_after_accept_x. Qed.
Print Assumptions C08_refused_after_accept_concurrent.

(* ... or in two, at whichever step the read looks at the record *)
Theorem C08_refused_after_accept_two_step_read : forall s i ph s' h ops j rev,
  xwf s -> xstep s (CThread i ph) = (s', OCompact h COk) -> c_cur (x_c (xrun s' ops)) < two64 -> rev < h ->
  (find_thr j (x_thr (xrun s' ops)) = Some (TReadGet rev) -> snd (xstep (xrun s' ops) (CReadCheck j rev)) = ORead RErr) /\
  (find_thr j (x_thr (xrun s' ops)) = Some (TReadScan rev) -> snd (xstep (xrun s' ops) (CReadScan j rev)) = ORead RErr).
Proof. exact refused_after_accept_read. Qed.
Print Assumptions C08_refused_after_accept_two_step_read.

(* the revision h a compaction thread answers with is the one it was spawned with - the clamp of the request against the
   committed revision and the retry queue at that moment - and no engine call of the thread changes it *)
Theorem C08_thread_revision : forall s i r n,
  find_thr i (x_thr (fst (xstep s (CSpawn i r n)))) = Some (TSetGet (clamp (c_cur (x_c s)) (c_retry (x_c s)) r) n).
Proof. exact spawn_rev. Qed.
Print Assumptions C08_thread_revision.

Theorem C08_thread_revision_kept : forall rec t,
  match snd (tstep rec t) with TGo t' => trev t' = trev t | TEnd _ => True end.
Proof. exact tstep_trev. Qed.
Print Assumptions C08_thread_revision_kept.

Theorem C08_thread_answers_its_revision : forall s i ph s' h res,
  xstep s (CThread i ph) = (s', OCompact h res) -> exists t, find_thr i (x_thr s) = Some t /\ h = trev t.
Proof. exact thread_end_rev. Qed.
Print Assumptions C08_thread_answers_its_revision.

(* the executable oracle used on the implementation's observations accepts every model run *)
Theorem C08_oracle_sound : forall c, c08_valid c -> c08_check c = true -> c08_oracle c = None.
Proof. exact c08_oracle_sound. Qed.
Print Assumptions C08_oracle_sound.

(* validity is decided and evaluated: what the shards compute on every generated case, c08_check_v = c08_validb && c08_check
   (revisions within 64 bits, and the model reproduces the history), puts the case under C08_oracle_sound. A generated case
   that is not valid counts as a mismatch of the run *)
Theorem C08_validb_sound : forall c, c08_validb c = true -> c08_valid c.
Proof. exact c08_validb_spec. Qed.
Print Assumptions C08_validb_sound.

Theorem C08_oracle_sound_evaluated : forall c, c08_check_v c = true -> c08_oracle c = None.
Proof. exact c08_oracle_sound_v. Qed.
Print Assumptions C08_oracle_sound_evaluated.

(* a range read during which the engine fails the point read of the compaction record (label CFaultRead; the driver makes
   the TiKV adapter's CmdGet of the record fail at the RPC level) is refused whatever the record says - below the floor,
   at it, above it, with no record at all: an unreadable record is never taken for "nothing compacted yet" *)
Theorem C08_fault_read_refused : forall s rev, xstep s (CFaultRead rev) = (s, ORead RErr).
Proof. exact fault_read_refused_x. Qed.
Print Assumptions C08_fault_read_refused.

(* reads through the etcd front end carry the label of the Backend.List they are: in the model of RPCServer.Range and its
   backend shim (Model/Etcd.v, shim_range) every request with a non-empty range_end that is neither the partition query nor
   a count is answered from Backend.List with the request's key, range_end, limit and revision, and with an error exactly
   when Backend.List answers one - the single-key range [key, key ++ "\x00") included *)
Theorem C08_etcd_range_is_list : forall st r,
  Etcd.r_end r <> [] -> Etcd.r_rev r <> Etcd.partition_magic -> Etcd.r_count_only r = false ->
  Etcd.shim_range st r =
    match Etcd.b_list st (Etcd.r_key r) (Etcd.r_end r) (Etcd.r_limit r) (Etcd.u64_of_Z (Etcd.r_rev r)) with
    | Etcd.BLErr => Etcd.RErr
    | Etcd.BLOk h kvs more => Etcd.ROk (Etcd.i64_of_N h) (map Etcd.shim_kv kvs) (Etcd.lenZ kvs + (if more then 1 else 0))%Z more
    end.
Proof. exact C08Fronts.etcd_range_is_list. Qed.
Print Assumptions C08_etcd_range_is_list.

Theorem C08_etcd_single_key_range_is_list : forall st key limit rev,
  rev <> Etcd.partition_magic ->
  (Etcd.shim_range st (Etcd.mkRange key (key ++ [0]) limit rev false false) = Etcd.RErr <->
   Etcd.b_list st key (key ++ [0]) limit (Etcd.u64_of_Z rev) = Etcd.BLErr).
Proof. exact C08Fronts.etcd_single_key_range_is_list. Qed.
Print Assumptions C08_etcd_single_key_range_is_list.

(* non-vacuity *)
Definition ex_s0 : cstate := mkC 112 0 None.
Definition ex_hist : list cop := [CCompact 111 1 true; CCompact 103 1 true; CWrite 3; CCompact2 107 2; CCompact 0 2 true].
(* high / low / in-between with several ranges per Compact: the record after every step *)
Example C08_ex_zigzag :
  map (fun ops => floor_of (c_rec (crun ex_s0 ops)))
      [[CCompact 108 3 true]; [CCompact 108 3 true; CCompact 103 3 true];
       [CCompact 108 3 true; CCompact 103 3 true; CCompact 106 3 true];
       [CCompact 108 3 true; CCompact 103 3 true; CCompact2 110 2; CCompact 106 3 true]]
  = [108; 108; 108; 110].
Proof. vm_compute. reflexivity. Qed.
Example C08_ex_wf : cwf ex_s0 /\ c_cur (crun ex_s0 ex_hist) < two64.
Proof. split; [left; reflexivity|vm_compute; reflexivity]. Qed.
(* the witness of fix 1f7f45b: Compact 111, Compact 103 leaves the floor at 111 and List at 105 is refused *)
Example C08_ex_fixed_witness :
  floor_of (c_rec (crun ex_s0 [CCompact 111 1 true; CCompact 103 1 true])) = 111 /\
  snd (cstep (crun ex_s0 [CCompact 111 1 true; CCompact 103 1 true]) (CList 105 0)) = ORead RErr /\
  snd (cstep (crun ex_s0 [CCompact 111 1 true; CCompact 103 1 true]) (CList 111 0)) = ORead RData.
Proof. vm_compute. repeat split. Qed.
Example C08_ex_accept : cstep ex_s0 (CCompact 500 1 true) = (mkC 112 0 (Some (be64 112)), OCompact 112 COk).
Proof. vm_compute. reflexivity. Qed.
(* retry-queue cap: an unknown-outcome write at 113 caps a later compaction at 112 *)
Example C08_ex_retry_cap :
  snd (cstep (crun ex_s0 [CUncertain; CWrite 5]) (CCompact 0 1 true)) = OCompact 112 COk.
Proof. vm_compute. reflexivity. Qed.
(* the unfixed scanner (unconditional Put of the request) would lower the floor: the hypothesis-free
   monotonicity really depends on the compare in checkCompactRace *)
Example C08_ex_unconditional_put_lowers :
  floor_of (Some (be64 103)) < floor_of (c_rec (crun ex_s0 [CCompact 111 1 true])).
Proof. vm_compute. reflexivity. Qed.

Definition xs0 : xstate := mkX (mkC 112 0 None) [].
(* the schedule that used to lower the floor (finding C08-F1, fixed): compaction 103 is advanced past its
   setCompactRecord, compaction 111 runs to completion, 103 goes on: its checkCompactRace now finds 111 >= 103 and
   leaves the record alone; List at 105 stays refused *)
Example C08_ex_former_F1_witness :
  let ops := [CSpawn 1 103 1; CThread 1 PhSetGet; CThread 1 PhSetCommit;
              CSpawn 2 111 1; CThread 2 PhSetGet; CThread 2 PhSetCommit; CThread 2 PhRaceGet] in
  floor (xrun xs0 ops) = 111 /\
  xstep (xrun xs0 ops) (CThread 1 PhRaceGet) = (mkX (mkC 112 0 (Some (be64 111))) [], OCompact 103 COk) /\
  snd (xstep (fst (xstep (xrun xs0 ops) (CThread 1 PhRaceGet))) (CList 105 0)) = ORead RErr.
Proof. vm_compute. repeat split. Qed.
(* a lost compare in checkCompactRace is re-read: scanner-level use, no record yet, two scans overlap *)
Example C08_ex_race_retry :
  let s := mkX (mkC 112 0 None) [(1, TRaceGet 103 1 1); (2, TRaceGet 111 1 1)] in
  let ops := [CThread 1 PhRaceGet; CThread 2 PhRaceGet; CThread 2 PhRacePut; CThread 1 PhRacePut] in
  floor (xrun s ops) = 111 /\ x_thr (xrun s ops) = [(1, TRaceGet 103 1 2)] /\
  snd (xstep (xrun s ops) (CThread 1 PhRaceGet)) = OCompact 103 COk.
Proof. vm_compute. repeat split. Qed.

(* overlapping setCompactRecord, both orders: the request whose CAS is lost fails, the floor keeps the other one *)
Example C08_ex_overlap_low_parked :
  let ops := [CSpawn 1 103 1; CThread 1 PhSetGet; CSpawn 2 111 1; CThread 2 PhSetGet; CThread 2 PhSetCommit; CThread 2 PhRaceGet] in
  snd (xstep (xrun xs0 ops) (CThread 1 PhSetCommit)) = OCompact 103 CErr /\
  floor (fst (xstep (xrun xs0 ops) (CThread 1 PhSetCommit))) = 111 /\
  snd (xstep (xrun xs0 ops) (CList 105 0)) = ORead RErr.
Proof. vm_compute. repeat split. Qed.
Example C08_ex_overlap_high_parked :
  let ops := [CSpawn 1 111 1; CThread 1 PhSetGet; CSpawn 2 103 1; CThread 2 PhSetGet; CThread 2 PhSetCommit; CThread 2 PhRaceGet] in
  snd (xstep (xrun xs0 ops) (CThread 1 PhSetCommit)) = OCompact 111 CErr /\
  floor (fst (xstep (xrun xs0 ops) (CThread 1 PhSetCommit))) = 103.
Proof. vm_compute. repeat split. Qed.
Example C08_ex_xwf : xwf xs0.
Proof. split; [left; reflexivity|split; [vm_compute; reflexivity|constructor]]. Qed.

(* the former witness of C08-F2: the read at 112 has passed its check, Compact(116) has recorded its revision; the scan
   step now ends refused *)
Example C08_ex_former_F2_witness :
  let s := xrun (mkX (mkC 116 0 None) []) [CRSpawn 5 112; CReadCheck 5 112; CSpawn 1 116 1; CThread 1 PhSetGet; CThread 1 PhSetCommit] in
  find_thr 5 (x_thr s) = Some (TReadScan 112) /\ floor s = 116 /\ snd (xstep s (CReadScan 5 112)) = ORead RErr.
Proof. vm_compute. repeat split. Qed.

Example C08_ex_fault_read :
  snd (xstep (xrun xs0 [CCompact 111 1 true]) (CFaultRead 105)) = ORead RErr /\
  snd (xstep (xrun xs0 [CCompact 111 1 true]) (CFaultRead 112)) = ORead RErr /\
  snd (xstep (xrun xs0 [CCompact 111 1 true]) (CList 112 0)) = ORead RData /\
  snd (xstep xs0 (CFaultRead 105)) = ORead RErr.
Proof. vm_compute. repeat split. Qed.

Example C08_ex_validb :
  let c := mkC8 100 [mkS8 (CWrite 12) OWrite 112 None; mkS8 (CCompact 111 1 true) (OCompact 111 COk) 112 (Some (be64 111));
                     mkS8 (CFaultRead 105) (ORead RErr) 112 (Some (be64 111)); mkS8 (CList 112 0) (ORead RData) 112 (Some (be64 111))] in
  c08_validb c = true /\ c08_check_v c = true /\ c08_oracle c = None.
Proof. vm_compute. repeat split. Qed.

(* the hypotheses of C08_etcd_range_is_list on the requests the driver sends: a prefix read, the single-key range *)
Example C08_ex_etcd_requests :
  let r1 := Etcd.mkRange [47;114;47] [47;114;48] 0 105 false false in
  let r2 := Etcd.mkRange [47;114;47;97] ([47;114;47;97] ++ [0]) 1 105 false false in
  Etcd.r_end r1 <> [] /\ Etcd.r_rev r1 <> Etcd.partition_magic /\ Etcd.r_count_only r1 = false /\
  Etcd.r_end r2 <> [] /\ Etcd.r_rev r2 <> Etcd.partition_magic /\ Etcd.r_count_only r2 = false.
Proof. cbv zeta. repeat split; try discriminate; reflexivity. Qed.

(* states with parked threads are well-formed too; an accept in the middle of an interleaving, a refusal at the check step *)
Example C08_ex_xwf_parked :
  let ops := [CSpawn 1 103 1; CThread 1 PhSetGet; CRSpawn 5 101; CSpawn 2 111 1; CThread 2 PhSetGet; CThread 2 PhSetCommit] in
  xwf (xrun xs0 ops) /\
  xstep (xrun xs0 ops) (CThread 2 PhRaceGet) = (fst (xstep (xrun xs0 ops) (CThread 2 PhRaceGet)), OCompact 111 COk) /\
  find_thr 5 (x_thr (xrun xs0 ops)) = Some (TReadGet 101) /\
  snd (xstep (xrun xs0 ops) (CReadCheck 5 101)) = ORead RErr /\
  snd (xstep (xrun xs0 ops) (CList 105 0)) = ORead RErr.
Proof.
  cbv zeta. split; [|vm_compute; repeat split].
  apply (C08_floor_monotone_concurrent [CSpawn 1 103 1; CThread 1 PhSetGet; CRSpawn 5 101; CSpawn 2 111 1; CThread 2 PhSetGet; CThread 2 PhSetCommit] xs0);
    [apply C08_ex_xwf|vm_compute; reflexivity].
Qed.
Example C08_ex_other_backend :
  cstep (mkC 112 0 (Some (be64 103))) (CCompact2 107 1) = (mkC 112 0 (Some (be64 107)), OCompact 107 COk).
Proof. vm_compute. reflexivity. Qed.
