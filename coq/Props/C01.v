(* C01 — Conditional writes never lose an update.
   Property theorems only: each is closed by `exact <lemma>` and followed by Print Assumptions.

   reach cidx0 d0 store s  :=  wf_store d0 store /\ exists ls, s = krun cidx0 ls (kinit d0 store)
   (state after an arbitrary label list — any interleaving of any number of clients issuing
   Create / Update / Delete with any expected revisions, plus asynchronous rewrites, any environment
   choice Ok / Error / ConflictAbort per engine call — from any well-formed store: per key never
   existed / live / deleted / deleted-and-compacted, all stored revisions at most d0).
   Unknown-outcome commits are C09's subject and are not among the environment choices here.
   The ghost log is newest first; an entry
     EApplied t q k a rev flag v pred
   says: a commit of thread t, serving request q, took effect on key k; the index record became
   (rev, flag), version rev got value v; pred is the index record it replaced. *)
From KB Require Import Model.RevSys Model.KeySys Model.C01Cases.
From KB Require Import Proofs.RevSys Proofs.KeySys Proofs.KeySysLog Proofs.KeySysChain Proofs.KeySysFail Proofs.KeySysJust Proofs.KeySysProps Proofs.SchedCases Proofs.SchedLink Proofs.KeySysSucc Proofs.ProxySound Proofs.CompactSound.
Local Open Scope N_scope.

(* C01_chain. For every key:
   - ch_image: the stored index / version records are exactly the image (replay) of the applied
     commits over the initial records;
   - ch_chain: every applied commit e, against the records `before` it (the replay of the older log):
       pred e = index record before                       (each link names its predecessor)
       revision of pred < new revision, and every version the key had is below the new revision
                                                          (strictly increasing, in commit order)
       link_req: a create (or Update with expected revision 0) found the key absent or deleted;
                 an update named exactly the predecessor's revision and the predecessor is live;
                 a delete found a live predecessor and, if guarded, named exactly its revision;
                 a rewrite named exactly the predecessor (revision and deletion flag). *)
Theorem C01_chain : forall cidx0 d0 store s, reach cidx0 d0 store s -> chaininv store s.
Proof. exact k_chain. Qed.
Print Assumptions C01_chain.

(* two applied commits on one key never replaced the same index revision: two writers conditioned on
   the same revision never both succeed *)
Theorem C01_no_double_success : forall cidx0 d0 store s, reach cidx0 d0 store s ->
  forall l2 l1 l0 k t1 q1 a1 r1 f1 v1 t2 q2 a2 r2 f2 v2 p b1 b2,
    log s = l2 ++ EApplied t2 q2 k a2 r2 f2 v2 (Some (p, b2)) :: l1 ++ EApplied t1 q1 k a1 r1 f1 v1 (Some (p, b1)) :: l0 ->
    False.
Proof. exact k_no_double_success. Qed.
Print Assumptions C01_no_double_success.

(* the same over "no index record" (never-existed or deleted-and-compacted key): a commit that found no index record
   is the first commit on its key in the log *)
Theorem C01_no_double_success_none : forall cidx0 d0 store s, reach cidx0 d0 store s ->
  forall l2 l1 l0 k t1 q1 a1 r1 f1 v1 p1 t2 q2 a2 r2 f2 v2,
    log s = l2 ++ EApplied t2 q2 k a2 r2 f2 v2 None :: l1 ++ EApplied t1 q1 k a1 r1 f1 v1 p1 :: l0 -> False.
Proof. exact k_no_double_success_none. Qed.
Print Assumptions C01_no_double_success_none.

(* a request answered with Succeeded = false or with an error applied no commit (so, by ch_image, left every key unchanged) *)
Theorem C01_failure_no_effect : forall cidx0 d0 store s, reach cidx0 d0 store s -> failures_clean (log s).
Proof. exact k_failure_no_effect. Qed.
Print Assumptions C01_failure_no_effect.

(* the converse: a request answered with success (Succeeded = true, or a repair that wrote) applied exactly one
   commit between its EInvoke and its answer, and that commit carries the revision of the answer's header.
   applied_revs t l (Proofs/KeySysSucc.v) = the revisions of thread t's EApplied entries in l down to t's
   latest EInvoke / EReturn; l01 holds no entry of thread t that is an invoke, a return or an applied commit. *)
Theorem C01_success_applied_once : forall cidx0 d0 store s, reach cidx0 d0 store s ->
  forall l1 l0 t r, log s = l1 ++ EReturn t r :: l0 -> resp_succ r = true ->
  exists x l01 q k a f v p l00,
    resp_hdr r = Some x /\
    l0 = l01 ++ EApplied t q k a x f v p :: l00 /\ applied_revs t l00 = [] /\
    Forall (fun e => match e with EInvoke t0 _ | EReturn t0 _ | EApplied t0 _ _ _ _ _ _ _ => t0 <> t | _ => True end) l01.
Proof. exact success_applied_once. Qed.
Print Assumptions C01_success_applied_once.

(* response level: two requests both answered with success applied two different commits (different
   revisions); if these are on one key they did not replace the same index revision, i.e. two writers
   conditioned on the same revision are never both answered with success *)
Theorem C01_no_double_success_responses : forall cidx0 d0 store s, reach cidx0 d0 store s ->
  forall l2 l1 l0 t1 r1 t2 r2,
    log s = l2 ++ EReturn t2 r2 :: l1 ++ EReturn t1 r1 :: l0 -> resp_succ r1 = true -> resp_succ r2 = true ->
  exists x1 x2 q1 k1 a1 f1 v1 p1 q2 k2 a2 f2 v2 p2,
    resp_hdr r1 = Some x1 /\ resp_hdr r2 = Some x2 /\ x1 <> x2 /\
    In (EApplied t1 q1 k1 a1 x1 f1 v1 p1) (log s) /\ In (EApplied t2 q2 k2 a2 x2 f2 v2 p2) (log s) /\
    (k1 = k2 -> forall p b1 b2, p1 = Some (p, b1) -> p2 = Some (p, b2) -> False).
Proof. exact no_double_success_resp. Qed.
Print Assumptions C01_no_double_success_responses.

(* the stored records stay well-formed: index (r, flag) => version r exists, is the newest, and is the
   tombstone if flag; every stored revision <= dealt; revisions held by threads in flight are absent
   from the store until their own commit *)
Theorem C01_store_wf : forall cidx0 d0 store s, reach cidx0 d0 store s -> kinv s.
Proof. exact reach_kinv. Qed.
Print Assumptions C01_store_wf.

(* C01_failure_justified_except_conflict_abort (the name says what the hypothesis quiet_label excludes: runs in which
   an engine reports a conflict abort — Badger / TiKV do so when another writer landed on the key; for those runs
   the statement is a gap, see props/C01.json).
   Ghost flag `seen s t` (Model/KeySys.v, observe): since t's LInvoke, after some step, t's key differed from
   what t's request expects (differs): create / Update-with-0: the index record is live; update naming p:
   the index record is not (p, live); guarded delete naming p: likewise; unguarded delete: the key is not live.
   applied_since t k log / stamp_since t k log: since t's latest EInvoke, some commit was applied on key k /
   the asynchronous repair re-stamped k's tombstone (EApplied … ARewrite … flag = true).
   Hypotheses on the run: quiet_label — no engine-reported conflict abort among the environment choices (the
   engine assumption of DESIGN.md §5) and no request value equal to the deletion marker; no_marker_store — no
   live stored value equal to the marker (both because of finding C03-F1: such a key reads as absent).

   DECISION on the unguarded delete (expected revision 0), documented here on purpose: txn.go:167-170 turns
   it into a compare-and-swap against the revision its own read returned, so it answers Succeeded=false when
   another commit lands on the key between its read and its batch although the key was live all the time.
   Letting it succeed instead would lose that commit (the chain would break: C01_chain), so the refusal is
   required; we read "the key differed from the expectation" for an unguarded delete as "the key did not stay
   as the delete found it": alternative 2 below (a commit was applied on its key while it was in flight).
   Everything else is alternative 1. Alternative 3 is exactly the signature of finding C01-F1. *)
Theorem C01_failure_justified_except_conflict_abort : forall cidx0 d0 store ls,
  wf_store d0 store -> no_marker_store store -> Forall quiet_label ls ->
  let s := krun cidx0 ls (kinit d0 store) in
  forall t r, thr s t = PReturn r -> resp_cond_failed r = true ->
    exists q, cur s t = Some q /\
      (seen s t = true
       \/ (unguarded_delete q = true /\ applied_since t (req_key q) (log s) = true)
       \/ (create_like q = true /\ stamp_since t (req_key q) (log s) = true)).
Proof. exact failure_justified. Qed.
Print Assumptions C01_failure_justified_except_conflict_abort.

(* for every run in which no asynchronous rewrite re-stamps the request's key while it is in flight *)
Theorem C01_failure_justified_except_conflict_abort_and_restamp : forall cidx0 d0 store ls,
  wf_store d0 store -> no_marker_store store -> Forall quiet_label ls ->
  let s := krun cidx0 ls (kinit d0 store) in
  forall t r, thr s t = PReturn r -> resp_cond_failed r = true ->
    exists q, cur s t = Some q /\
      (stamp_since t (req_key q) (log s) = false ->
       seen s t = true \/ (unguarded_delete q = true /\ applied_since t (req_key q) (log s) = true)).
Proof. exact failure_justified_except_restamp. Qed.
Print Assumptions C01_failure_justified_except_conflict_abort_and_restamp.

(* the complement is real (finding C01-F1, reproduced on the code): without the third alternative the
   statement is refuted — a creator dealt 11 is refused because the repair re-stamped the tombstone at 12 *)
Definition C01_failure_justified_full_statement : Prop := failure_justified_full.
Theorem C01_failure_justified_refuted : ~ failure_justified_full.
Proof. exact failure_justified_refuted. Qed.
Print Assumptions C01_failure_justified_refuted.
Example C01_f1_signature_occurs : stamp_since 0 0 (log (krun true f1_labels (kinit 10 f1_store))) = true.
Proof. exact f1_signature_occurs. Qed.

(* the flag is never cleared while the request is in flight *)
Theorem C01_seen_monotone : forall cidx0 s l t q,
  rpanic (rs s) = false -> cur s t = Some q -> cur (kstep cidx0 s l) t = Some q ->
  (forall q0, l <> LInvoke t q0) -> seen s t = true -> seen (kstep cidx0 s l) t = true.
Proof. exact seen_step_mono. Qed.
Print Assumptions C01_seen_monotone.

(* the oracle lemma for schedule cases. Full statement (not proved, see "gaps"): *)
Definition C01_oracle_sound_full_statement : Prop :=
  forall c, sched_check c = true -> sched_c01_oracle c = None \/ sched_c01_oracle c = Some 1.
(* validity of a case (distinct thread ids and keys, well-formed initial key states) is decidable and part of
   sched_check: an invalid case counts as a mismatch, so every case that passes is covered by the theorems *)
Theorem C01_check_implies_valid : forall c, sched_check c = true -> sched_valid c /\ sched_check_core c = true.
Proof. exact sched_check_split. Qed.
Print Assumptions C01_check_implies_valid.

(* proved part: whenever the model reproduces the observation step by step, the observed final dump of every
   key is the image (replay) of a chain of applied commits over the observed initial dump, each link
   satisfying link_ok (names its predecessor, strictly increasing, kind-specific condition) *)
Theorem C01_checked_case_final_dump_is_chain : forall c, sched_check c = true ->
  exists lg, chain (store_of (sc_init c)) lg /\
    forall k ks, In (k, ks) (sc_final c) -> kstate_eqb (replay (store_of (sc_init c)) lg k) ks = true.
Proof. exact sched_final_dump_chain_checked. Qed.
Print Assumptions C01_checked_case_final_dump_is_chain.

(* proved clause records_complete: every request of the case got exactly one record *)
Theorem C01_sched_oracle_records_complete_sound_partial : forall c, sched_check c = true ->
  records_complete c (case_records c) = true.
Proof. exact sched_records_complete_sound_checked. Qed.
Print Assumptions C01_sched_oracle_records_complete_sound_partial.

(* case kind C1Proxy (a conditional write through a follower's proxy whose link loses the reply): the oracle
   lemma, for every case. Validity (request on key 0, well-formed initial key state, no live stored value and no
   request value equal to the deletion marker) is part of proxy_check. Whenever the model reproduces the
   observation and the client was told "condition failed", the key differed from the request's expectation when
   the request came in and the observed final key state equals the initial one. *)
Theorem C01_proxy_oracle_sound : forall c, proxy_check c = true -> proxy_ok c = true.
Proof. exact proxy_oracle_sound. Qed.
Print Assumptions C01_proxy_oracle_sound.
(* the invariant behind it, for every run: every applied commit belongs to a request that is on its way to a
   success answer or has been answered with success *)
Theorem C01_applied_has_success : forall cidx0 s l, kinv s -> tinvS s -> tinvS (kstep cidx0 s l).
Proof. exact tinvS_step. Qed.
Print Assumptions C01_applied_has_success.

(* case kind C1Compact (a compaction pass held before it deletes a tombstoned index record while a create commits):
   the final-dump half of the oracle (compact_final_ok: the acknowledged create is the live index record and its
   version record is there), for the case shape the driver emits (one create). Validity (well-formed initial key
   state, writes on key 0, compaction revision <= initial revision) is part of compact_check. The probes half
   (compact_probes_ok: follow-up Get / Update / Create) is judged by the oracle only, see gaps. *)
Theorem C01_compact_oracle_final_sound_partial : forall c v rev,
  cc_writes c = [(RqCreate 0 v, RespCreate rev true)] -> compact_check c = true -> compact_final_ok c = true.
Proof. exact compact_final_sound. Qed.
Print Assumptions C01_compact_oracle_final_sound_partial.

(* … and the whole oracle under the hypothesis that the follow-up probes agree *)
Theorem C01_compact_oracle_sound_given_probes : forall c v rev,
  cc_writes c = [(RqCreate 0 v, RespCreate rev true)] -> compact_check c = true -> compact_probes_ok c = true ->
  compact_ok c = true.
Proof. exact compact_sound_given_probes. Qed.
Print Assumptions C01_compact_oracle_sound_given_probes.

(* ----- non-vacuity ----- *)
Example C01_compact_ex :
  let c := {| cc_cidx0 := true; cc_d0 := 10; cc_R := 7;
              cc_init := {| k_idx := Some (7, true); k_vers := [(7, tombstone); (6, [3])] |};
              cc_writes := [(RqCreate 0 [8], RespCreate 11 true)];
              cc_final := {| k_idx := Some (11, false); k_vers := [(11, [8])] |};
              cc_get := Some ([8], 11); cc_update_ok := true; cc_create_refused := true |} in
  compact_check c = true /\ compact_final_ok c = true /\ compact_probes_ok c = true /\ compact_ok c = true.
Proof. vm_compute. repeat split; reflexivity. Qed.
Example C01_proxy_ex :
  let c := {| px_d0 := 10; px_init := {| k_idx := Some (5, false); k_vers := [(5, [1]); (3, [2])] |};
              px_req := RqUpdate 0 [9] 3; px_resp := RespUpdate 11 false (Some ([1], 5));
              px_final := {| k_idx := Some (5, false); k_vers := [(5, [1]); (3, [2])] |} |} in
  proxy_check c = true /\ resp_cond_failed (px_resp c) = true /\ proxy_ok c = true.
Proof. vm_compute. repeat split; reflexivity. Qed.
Example C01_ex_reach : reach true 10 ex_store ex_state.
Proof. exact ex_reach. Qed.
(* in the example history thread 0's update naming 5 applied; thread 1's unconditional delete had read
   revision 5, lost its compare-and-swap and answers condition failed with the latest kv; the store is
   the image of the one applied commit *)
Example C01_ex_state :
  log ex_state = [EReturn 0 (RespUpdate 12 true None); ENotified 1 11 false; EDealt 2 13; EInvoke 2 (RqCreate 1 [8]);
                  ENotified 0 12 true; EApplied 0 (Some (RqUpdate 0 [9] 5)) 0 AUpdate 12 false [9] (Some (5, false));
                  EDealt 0 12; EInvoke 0 (RqUpdate 0 [9] 5); EDealt 1 11; EInvoke 1 (RqDelete 0 0)]
  /\ kv ex_state 0 = {| k_idx := Some (12, false); k_vers := ver_put 12 [9] [(5, [1]); (3, [2])] |}
  /\ thr ex_state 1 = PReturn (RespDelete 12 false (Some ([9], 12))).
Proof. vm_compute. repeat split; reflexivity. Qed.

(* C01_success_applied_once on the example history: thread 0's successful update (header 12) applied exactly
   the commit at 12; C01_no_double_success / no_marker_store / C01_seen_monotone have their hypotheses met *)
Example C01_ex_success_applied_once :
  exists l0, log ex_state = [] ++ EReturn 0 (RespUpdate 12 true None) :: l0 /\ resp_succ (RespUpdate 12 true None) = true
             /\ applied_revs 0 l0 = [12].
Proof. eexists. split; [vm_compute; reflexivity|]. split; reflexivity. Qed.
Example C01_ex_no_marker_store : no_marker_store ex_store.
Proof. exact ex_no_marker_store. Qed.
Example C01_ex_seen_monotone :
  let s := krun true [LInvoke 0 (RqCreate 0 [9])] (kinit 10 ex_store) in
  rpanic (rs s) = false /\ cur s 0 = Some (RqCreate 0 [9]) /\ seen s 0 = true
  /\ cur (kstep true s (LDeal 0)) 0 = Some (RqCreate 0 [9]) /\ seen (kstep true s (LDeal 0)) 0 = true.
Proof. vm_compute. repeat split; reflexivity. Qed.

(* the hypotheses of C01_failure_justified_except_conflict_abort on the example history: thread 1's unguarded delete is answered
   "condition failed" (alternative 2: thread 0's update landed on its key), no marker values, no aborts *)
Example C01_ex_justified :
  Forall quiet_label ex_labels /\ thr ex_state 1 = PReturn (RespDelete 12 false (Some ([9], 12)))
  /\ cur ex_state 1 = Some (RqDelete 0 0) /\ seen ex_state 1 = false /\ applied_since 1 0 (log ex_state) = true.
Proof. split; [unfold ex_labels; repeat constructor; simpl; discriminate|vm_compute; repeat split; reflexivity]. Qed.
