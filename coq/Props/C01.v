(* C01 — Conditional writes never lose an update.
   Property theorems only: each is closed by `exact <lemma>` and followed by Print Assumptions.

   reach cidx0 d0 store s  :=  wf_store d0 store /\ exists ls, s = krun cidx0 ls (kinit d0 store)
   (state after an arbitrary label list — any interleaving of any number of clients issuing
   Create / Update / Delete with any expected revisions, plus asynchronous rewrites, any environment
   choice Ok / Error / ConflictAbort per engine call — from any well-formed store: per key never
   existed / live / deleted / deleted-and-compacted, all stored revisions at most d0).
   Unknown-outcome commits are C09's subject and are not among the environment choices here.
   The ghost log is newest first; an entry
     EApplied t q k a rev flag v pred
   says: a commit of thread t, serving request q, took effect on key k; the index record became
   (rev, flag), version rev got value v; pred is the index record it replaced. *)
From KB Require Import Model.RevSys Model.KeySys Model.C01Cases.
From KB Require Import Proofs.RevSys Proofs.KeySys Proofs.KeySysLog Proofs.KeySysChain Proofs.KeySysFail Proofs.KeySysProps.
Local Open Scope N_scope.

(* C01_chain. For every key:
   - ch_image: the stored index / version records are exactly the image (replay) of the applied
     commits over the initial records;
   - ch_chain: every applied commit e, against the records `before` it (the replay of the older log):
       pred e = index record before                       (each link names its predecessor)
       revision of pred < new revision, and every version the key had is below the new revision
                                                          (strictly increasing, in commit order)
       link_req: a create (or Update with expected revision 0) found the key absent or deleted;
                 an update named exactly the predecessor's revision and the predecessor is live;
                 a delete found a live predecessor and, if guarded, named exactly its revision;
                 a rewrite named exactly the predecessor (revision and deletion flag). *)
Theorem C01_chain : forall cidx0 d0 store s, reach cidx0 d0 store s -> chaininv store s.
Proof. exact k_chain. Qed.
Print Assumptions C01_chain.

(* two applied commits on one key never replaced the same index revision: two writers conditioned on
   the same revision never both succeed *)
Theorem C01_no_double_success : forall cidx0 d0 store s, reach cidx0 d0 store s ->
  forall l2 l1 l0 k t1 q1 a1 r1 f1 v1 t2 q2 a2 r2 f2 v2 p b1 b2,
    log s = l2 ++ EApplied t2 q2 k a2 r2 f2 v2 (Some (p, b2)) :: l1 ++ EApplied t1 q1 k a1 r1 f1 v1 (Some (p, b1)) :: l0 ->
    False.
Proof. exact k_no_double_success. Qed.
Print Assumptions C01_no_double_success.

(* a request answered with Succeeded = false or with an error applied no commit (so, by ch_image, left every key unchanged) *)
Theorem C01_failure_no_effect : forall cidx0 d0 store s, reach cidx0 d0 store s -> failures_clean (log s).
Proof. exact k_failure_no_effect. Qed.
Print Assumptions C01_failure_no_effect.

(* the stored records stay well-formed: index (r, flag) => version r exists, is the newest, and is the
   tombstone if flag; every stored revision <= dealt; revisions held by threads in flight are absent
   from the store until their own commit *)
Theorem C01_store_wf : forall cidx0 d0 store s, reach cidx0 d0 store s -> kinv s.
Proof. exact reach_kinv. Qed.
Print Assumptions C01_store_wf.

(* C01_failure_justified. `seen s t` is the ghost flag "since t's LInvoke, in some state t's key differed
   from what t's request expects" (Model/KeySys.v: observe); justified_at s t := seen s t = true, or — for an
   unguarded delete, which expects the key to stay as it found it — another commit on its key since its LInvoke.
   failure_justified_statement allowed :=
     forall cidx0 d0 store ls, wf_store d0 store -> no_marker_store store ->
       Forall (fun l => quiet_label l /\ allowed l) ls ->          (no engine-reported conflict abort: DESIGN §5;
                                                                    no value equal to the deletion marker: C03-F1)
       forall t r, thr (krun cidx0 ls (kinit d0 store)) t = PReturn r -> resp_cond_failed r = true ->
         justified_at (krun …) t. *)
Definition C01_failure_justified_full_statement : Prop := failure_justified_statement (fun _ => True).

(* the faithful model refutes it (finding C01-F1, reproduced on the real code): a creator dealt 11 is refused
   because the asynchronous repair re-stamped the key's tombstone at 12 — the key was deleted all the time *)
Theorem C01_failure_justified_refuted : ~ failure_justified_statement (fun _ => True).
Proof. exact failure_justified_refuted. Qed.
Print Assumptions C01_failure_justified_refuted.

(* the complement (label lists without asynchronous rewrites) is stated, not proved: see props/C01.json "gaps";
   the oracle `justified` checks it on every schedule case *)
Definition C01_failure_justified_except_rewrite_statement : Prop := failure_justified_except_rewrite.

(* full statement of the oracle lemma for schedule cases — not proved (see "gaps") *)
Definition C01_oracle_sound_full_statement : Prop :=
  forall c, sched_valid c -> c01_check c = true -> c01_oracle c = None.

(* ----- non-vacuity ----- *)
Example C01_ex_reach : reach true 10 ex_store ex_state.
Proof. exact ex_reach. Qed.
(* in the example history thread 0's update naming 5 applied; thread 1's unconditional delete had read
   revision 5, lost its compare-and-swap and answers condition failed with the latest kv; the store is
   the image of the one applied commit *)
Example C01_ex_state :
  log ex_state = [EReturn 0 (RespUpdate 12 true None); ENotified 1 11 false; EDealt 2 13; EInvoke 2 (RqCreate 1 [8]);
                  ENotified 0 12 true; EApplied 0 (Some (RqUpdate 0 [9] 5)) 0 AUpdate 12 false [9] (Some (5, false));
                  EDealt 0 12; EInvoke 0 (RqUpdate 0 [9] 5); EDealt 1 11; EInvoke 1 (RqDelete 0 0)]
  /\ kv ex_state 0 = {| k_idx := Some (12, false); k_vers := ver_put 12 [9] [(5, [1]); (3, [2])] |}
  /\ thr ex_state 1 = PReturn (RespDelete 12 false (Some ([9], 12))).
Proof. vm_compute. repeat split; reflexivity. Qed.
