(* C12 — Client-visible behaviour does not depend on the storage engine.
   Property theorems only: each is closed by `exact <lemma>` and followed by Print Assumptions. *)
From KB Require Import Model.BackendSeq Model.C12Cases Proofs.C12Wrapper.

Theorem C12_wrapper_transparent : forall A prefix init qs,
  run_history (wrapper A) prefix init qs = run_history A prefix init qs.
Proof. exact wrapper_transparent. Qed.
Print Assumptions C12_wrapper_transparent.
