(* C12 — Client-visible behaviour does not depend on the storage engine.
   Property theorems only: each is closed by `exact <lemma>` and followed by Print Assumptions.

   `run_history A prefix init qs` (Model/BackendSeq.v) is what the backend's sequential request programs answer over
   adapter model A: the raw engine contents at the end, the responses (success flags, error classes, values,
   revisions, range results incl. more, header revisions) and the watch events.  `sim A m` (Proofs/Adapters.v) is
   "A refines the engine contract" — the statement C11 proves for memkv, Badger, TiKV and the wrapper. *)
From KB Require Import Base.Cases Model.Store Model.Adapters Model.C11Cases Model.Coder Model.BackendSeq Model.C12Cases
  Proofs.Adapters Proofs.C11Cases Proofs.C12Wrapper Proofs.C12Indep Proofs.C12Compact Proofs.C12Restart Proofs.C12Clients Proofs.C12Cases Proofs.C12Exact.
Local Open Scope N_scope.

(* C12_full_statement (Proofs/C12Cases.v): every sequential history, any two adapters that refine the contract, equal
   run_history.  It is refuted by finding C12-F1 (below); what is proved is the statement relative to the written values. *)
(* Proved, relative to the set VP of values a history may write (VP must contain every non-empty value): every
   sequential history — Create / Update / Delete / Get / List / Count / ListByStream / Compact; correct, stale, zero and
   future expected revisions; existing, missing, deleted, deleted-and-compacted keys; limits; explicit read revisions —
   whose written values are in VP, for any two adapters that refine the contract (whichever reading of DelCurrent each
   implements) and accept the values of VP.
   `plain_ok VP S`: the batches the programs issue (put-if-absent / compare-and-swap / put / delete with values in VP)
   lie outside the C11 deviations of S; `stamped_if_version S`: under the by-version reading every stored key carries
   a write stamp. *)
Theorem C12_engine_independent :
  forall (VP : bytes -> Prop), (forall v, v <> [] -> VP v) ->
  forall A mA (SA : sim A mA) B mB (SB : sim B mB) prefix init qs,
    plain_ok VP SA -> stamped_if_version SA -> plain_ok VP SB -> stamped_if_version SB -> Forall (hist_ok VP) qs ->
    run_history A prefix init qs = run_history B prefix init qs.
Proof. exact engine_independent. Qed.
Print Assumptions C12_engine_independent.

(* every adapter accepts the non-empty values; memkv, Badger and the wrappers accept every value — TiKV does not
   (finding C12-F1: a write of an empty value fails on TiKV) *)
Theorem C12_plain_ok_all : forall e, plain_ok nonempty (sim_of e).
Proof. exact plain_ok_of. Qed.
Print Assumptions C12_plain_ok_all.

Theorem C12_plain_ok_any_value : forall e, tikv_eng e = false -> plain_ok anyvalue (sim_of e).
Proof. exact plain_any_of. Qed.
Print Assumptions C12_plain_ok_any_value.

Theorem C12_stamped_all : forall e, stamped_if_version (sim_of e).
Proof. exact stamped_of. Qed.
Print Assumptions C12_stamped_all.

(* all six engine models (memkv, Badger, TiKV, each also behind the wrapper), on histories that write no empty value: the statement outside finding C12-F1 *)
Theorem C12_engine_independent_except_F1 : forall e1 e2 prefix init qs, Forall (hist_ok nonempty) qs ->
  run_history (adapter_of e1) prefix init qs = run_history (adapter_of e2) prefix init qs.
Proof.
  exact (fun e1 e2 prefix init qs H =>
           engine_independent nonempty nonempty_ok _ _ (sim_of e1) _ _ (sim_of e2) prefix init qs
             (plain_ok_of e1) (stamped_of e1) (plain_ok_of e2) (stamped_of e2) H).
Qed.
Print Assumptions C12_engine_independent_except_F1.

(* memkv, Badger and the metrics wrapper over them, on EVERY history, empty values included: since Get returns the
   key-value whatever the value (repair of C16-F8), what is left of C12-F1 is TiKV alone *)
Theorem C12_engine_independent_storing_empty : forall e1 e2 prefix init qs, tikv_eng e1 = false -> tikv_eng e2 = false ->
  run_history (adapter_of e1) prefix init qs = run_history (adapter_of e2) prefix init qs.
Proof.
  exact (fun e1 e2 prefix init qs H1 H2 =>
           engine_independent anyvalue anyvalue_ok _ _ (sim_of e1) _ _ (sim_of e2) prefix init qs
             (plain_any_of e1 H1) (stamped_of e1) (plain_any_of e2 H2) (stamped_of e2) (hist_any qs)).
Qed.
Print Assumptions C12_engine_independent_storing_empty.

(* every adapter answers as the contract itself would (the reference adapter is the contract on a plain map) *)
Theorem C12_as_contract : forall (VP : bytes -> Prop), (forall v, v <> [] -> VP v) ->
  forall A m (S : sim A m), plain_ok VP S -> stamped_if_version S ->
  forall prefix init qs, Forall (hist_ok VP) qs ->
  run_history A prefix init qs = run_history radapter prefix init qs.
Proof. exact (fun VP HVP A m S H H' prefix init qs => @rel_run_history_all VP HVP A m S H H' prefix init qs). Qed.
Print Assumptions C12_as_contract.

(* the compaction pass: every snapshot record stays unchanged-or-missing, so by-value and by-version agree *)
Theorem C12_compact_pass : forall (VP : bytes -> Prop) A m (S : sim A m), plain_ok VP S -> stamped_if_version S ->
  forall rev lim s r a b, Rel S s r ->
  match worker_run A true rev lim s a b, worker_run radapter true rev lim r a b with
  | None, None => True
  | Some (s', _), Some (r', _) => Rel S s' r'
  | _, _ => False
  end.
Proof. exact (fun VP A m S H H' => @rel_worker_run_true VP A m S H H'). Qed.
Print Assumptions C12_compact_pass.

(* the metrics wrapper is transparent for every history, compaction included *)
Theorem C12_wrapper_transparent : forall A prefix init qs,
  run_history (wrapper A) prefix init qs = run_history A prefix init qs.
Proof. exact wrapper_transparent. Qed.
Print Assumptions C12_wrapper_transparent.

(* the full statement is refuted by a write of an empty value (finding C12-F1): TiKV refuses the write, memkv and
   Badger store it and hand the key back *)
Theorem C12_full_refuted_memkv_tikv :
  snd (fst (run_history memkv registry 1000 f1_history)) <> snd (fst (run_history tikv registry 1000 f1_history)).
Proof. exact empty_value_memkv_tikv. Qed.
Print Assumptions C12_full_refuted_memkv_tikv.

Theorem C12_full_statement_refuted : ~ C12_full_statement.
Proof. exact full_statement_refuted. Qed.
Print Assumptions C12_full_statement_refuted.

(* the TiKV adapter spread over n+1 clients of one cluster (the index of the serving client moves on with every batch,
   also a failed one) refines the contract like the single-client adapter and answers every history alike: the
   tikv-2-clients / tikv-4-clients configurations are checked against the same adapter model *)
Theorem C12_multi_client_refines : forall A m (S : sim A m) n, sim (multi_client A n) m.
Proof. exact sim_multi_client. Qed.
Print Assumptions C12_multi_client_refines.

Theorem C12_multi_client_transparent :
  forall (VP : bytes -> Prop), (forall v, v <> [] -> VP v) -> forall A m (S : sim A m) n prefix init qs,
  plain_ok VP S -> stamped_if_version S -> Forall (hist_ok VP) qs ->
  run_history (multi_client A n) prefix init qs = run_history A prefix init qs.
Proof. exact multi_client_transparent. Qed.
Print Assumptions C12_multi_client_transparent.

(* Restarts.  In the sequential model the backend state is the engine plus the revision reached, and a restart hands
   exactly that to the new backend: the two model-level facts below are eta-expansions of the state record — they record
   the modelling decision, they do not establish it.  The content is in C12_restart_observed: the driver performs real
   restarts (Badger directory closed and reopened, a new Backend with SetCurrentRevision), and whenever its observation
   passes c12_check, the responses, the watch events (r_events) and the raw engine contents it recorded are those of
   the model run on the history WITHOUT the restart steps. *)
Theorem C12_restart_is_identity_in_model : forall A prefix (st : BackendSeq.bstate A), q_step A prefix st QRestart = (st, PRestarted, []).
Proof. exact restart_step. Qed.
Print Assumptions C12_restart_is_identity_in_model.

Theorem C12_restart_steps_drop_out_in_model : forall A prefix init qs,
  let '(final, rs, evs) := run_history A prefix init qs in
  let '(final', rs', evs') := run_history A prefix init (strip_reqs qs) in
  final = final' /\ strip_resps rs = strip_resps rs' /\ evs = evs'.
Proof. exact run_history_strip. Qed.
Print Assumptions C12_restart_steps_drop_out_in_model.

Theorem C12_restart_observed : forall c, c12_check c = true -> forall r, In r (h_runs c) ->
  let '(final', rs', evs') := run_history (adapter_of (r_eng r)) registry (h_init c) (strip_reqs (h_reqs c)) in
  strip_resps (r_resps r) = strip_resps rs' /\ r_events r = evs' /\ r_final r = final'.
Proof. exact restart_observed. Qed.
Print Assumptions C12_restart_observed.

(* exactness of the open deviation C12-F1: on EVERY case the models reproduce (any history, empty values included, any
   engines) the pairwise oracle says None or code 1 — an empty value is written, all engines agree before that write,
   the TiKV configurations agree among themselves and so do memkv / Badger / wrappers.  There is no other disagreement. *)
Theorem C12_oracle_exact : forall c, c12_check c = true -> c12_oracle c = None \/ c12_oracle c = Some 1.
Proof. exact c12_oracle_exact. Qed.
Print Assumptions C12_oracle_exact.

(* validity is decidable and evaluated *)
Theorem C12_validb_sound : forall c, c12_validb c = true -> c12_valid c.
Proof. exact c12_validb_ok. Qed.
Print Assumptions C12_validb_sound.

Theorem C12_oracle_sound_checked : forall c, c12_validb c = true -> c12_check c = true -> c12_oracle c = None.
Proof. exact c12_oracle_sound_checked. Qed.
Print Assumptions C12_oracle_sound_checked.

(* ---- non-vacuity ---- *)
Definition ex_key : bytes := registry ++ [47; 97].
Definition ex_history : list req :=
  [QUpdate ex_key [118; 49] 7;                     (* guarded update of a missing key: the da987ef witness *)
   QCreate ex_key [118; 49]; QCreate ex_key [118; 50];
   QUpdate ex_key [118; 51] 1002; QUpdate ex_key [118; 52] 1002;
   QGet ex_key 0; QDelete ex_key 1002; QDelete ex_key 0; QCreate ex_key [118; 54];
   QList (registry ++ [47]) (registry ++ [48]) 0 1; QGet ex_key 1004].

(* create, delete, compact the tombstone away (DelCurrent on the flagged index record), then a guarded update *)
Definition ex_compact_history : list req :=
  [QCreate ex_key [118; 49]; QUpdate ex_key [118; 50] 1001; QDelete ex_key 0; QCompact 0;
   QUpdate ex_key [118; 51] 1002; QGet ex_key 0; QCreate ex_key [118; 52]; QCompact 1004;
   QList (registry ++ [47]) (registry ++ [48]) 0 0].

Example C12_ex_compact_valid : Forall (hist_ok nonempty) ex_compact_history.
Proof. repeat constructor; discriminate. Qed.

(* the pass really deletes: after the first Compact only the compaction record is left in the engine *)
Example C12_ex_compact_effect :
  fst (fst (run_history badger registry 1000 [QCreate ex_key [118; 49]; QDelete ex_key 0; QCompact 0])) =
  [(registry ++ compact_suffix, be64 1002)] /\
  snd (fst (run_history badger registry 1000 ex_compact_history)) =
  snd (fst (run_history memkv registry 1000 ex_compact_history)).
Proof. split; vm_compute; reflexivity. Qed.

Example C12_ex_valid : Forall (hist_ok nonempty) ex_history.
Proof. repeat constructor; discriminate. Qed.

(* a history in which writes succeed, fail on a condition, a delete tombstones the key and a create revives it;
   the three base engine models answer alike (the wrapper models are record copies of them) *)
Example C12_ex_transcript :
  snd (fst (run_history memkv registry 1000 ex_history)) =
  [PUpdate false 1001 None; PCreate true 1002; PCreate false 1003;
   PUpdate true 1004 None; PUpdate false 1005 (Some ([118; 51], 1004));
   PGet 1005 (Some ([118; 51], 1004)); PDelete false 1006 (Some ([118; 51], 1004));
   PDelete true 1007 (Some ([118; 51], 1004)); PCreate true 1008;
   PList 1008 [(ex_key, [118; 54], 1008)] false; PGet 1008 (Some ([118; 51], 1004))].
Proof. vm_compute. reflexivity. Qed.

Example C12_ex_engines :
  run_history memkv registry 1000 ex_history = run_history badger registry 1000 ex_history /\
  run_history memkv registry 1000 ex_history = run_history tikv registry 1000 ex_history.
Proof. split; vm_compute; reflexivity. Qed.

(* the oracle is not vacuous: it rejects the transcript pair the TiKV defect fixed by da987ef produced *)
Example C12_oracle_rejects :
  c12_oracle (mk_c12 1000 [QUpdate ex_key [118; 49] 7]
                [mk_run EMem [PUpdate false 1001 None] [] []; mk_run ETiKV [PErr] [] []]) = Some 0.
Proof. vm_compute. reflexivity. Qed.

(* regression for the repair of C16-F8: memkv and Badger answer the empty-value history alike, with the key returned *)
Example C12_empty_value_memkv_badger :
  run_history memkv registry 1000 f1_history = run_history badger registry 1000 f1_history /\
  snd (fst (run_history badger registry 1000 f1_history)) = [PCreate true 1001; PGet 1001 (Some ([], 1001))].
Proof. split; [exact empty_value_memkv_badger|vm_compute; reflexivity]. Qed.

(* and the oracle no longer excuses a memkv/Badger disagreement on an empty value as finding C12-F1 *)
Example C12_oracle_rejects_old_badger_get :
  c12_oracle (mk_c12 1000 f1_history
                [mk_run EMem [PCreate true 1001; PGet 1001 (Some ([], 1001))] [] [];
                 mk_run EBadger [PCreate true 1001; PGet 1001 None] [] []]) = Some 0.
Proof. vm_compute. reflexivity. Qed.

(* a history with restart steps is valid, and the model answers it like the history without them *)
Definition ex_restart_history : list req :=
  [QCreate ex_key [118; 49]; QRestart; QUpdate ex_key [118; 50] 1001; QRestart; QGet ex_key 0; QCompact 0; QRestart; QGet ex_key 1001].

Example C12_ex_restart : Forall (hist_ok nonempty) ex_restart_history /\
  snd (fst (run_history badger registry 1000 ex_restart_history)) =
  [PCreate true 1001; PRestarted; PUpdate true 1002 None; PRestarted; PGet 1002 (Some ([118; 50], 1002));
   PCompact 1002 false; PRestarted; PGet 1002 None].
Proof. split; [repeat constructor; discriminate|vm_compute; reflexivity]. Qed.

(* four TiKV clients over one cluster, concretely *)
Example C12_ex_multi_client :
  run_history (multi_client tikv 3) registry 1000 ex_compact_history = run_history tikv registry 1000 ex_compact_history.
Proof. vm_compute. reflexivity. Qed.

(* a positive case: two runs (memkv and TiKV) exactly as the models answer ex_history: valid, passes the check, and the
   oracle accepts it *)
Definition ex_case : c12_case :=
  let '(f1, r1, e1) := run_history memkv registry 1000 ex_history in
  let '(f2, r2, e2) := run_history tikv registry 1000 ex_history in
  mk_c12 1000 ex_history [mk_run EMem r1 e1 f1; mk_run ETiKV r2 e2 f2].

Example C12_ex_case_covered : c12_validb ex_case && c12_check ex_case = true /\ c12_oracle ex_case = None.
Proof. split; vm_compute; reflexivity. Qed.

(* validity refuses a "comparison" of fewer than two runs *)
Example C12_one_run_is_not_valid : c12_validb (mk_c12 1000 ex_history [mk_run EMem [] [] []]) = false.
Proof. reflexivity. Qed.

(* C12_compact_pass: its hypothesis holds at the start, and the pass comes back with a state on both sides *)
Example C12_ex_compact_pass :
  Rel sim_badger (a_init badger) [] /\
  (exists s' k, worker_run badger true 1002 0 (a_init badger) (encode (registry ++ [47]) 0) (encode (registry ++ [48]) 0) = Some (s', k)) /\
  (exists r' k, worker_run radapter true 1002 0 [] (encode (registry ++ [47]) 0) (encode (registry ++ [48]) 0) = Some (r', k)).
Proof.
  split; [exists (cs_of []); repeat split; try constructor; apply (sim_init _ _ sim_badger)|].
  split; do 2 eexists; vm_compute; reflexivity.
Qed.
