(* C12 — Client-visible behaviour does not depend on the storage engine.
   Property theorems only: each is closed by `exact <lemma>` and followed by Print Assumptions.

   `run_history A prefix init qs` (Model/BackendSeq.v) is what the backend's sequential request programs answer over
   adapter model A: the raw engine contents at the end, the responses (success flags, error classes, values,
   revisions, range results incl. more, header revisions) and the watch events.  `sim A m` (Proofs/Adapters.v) is
   "A refines the engine contract" — the statement C11 proves for memkv, Badger, TiKV and the wrapper. *)
From KB Require Import Base.Cases Model.Store Model.Adapters Model.C11Cases Model.Coder Model.BackendSeq Model.C12Cases
  Proofs.Adapters Proofs.C11Cases Proofs.C12Wrapper Proofs.C12Indep Proofs.C12Compact Proofs.C12Cases.
Local Open Scope N_scope.

(* the full statement: every sequential history, any two adapters that refine the contract *)
Definition C12_full_statement : Prop :=
  forall A mA (SA : sim A mA) B mB (SB : sim B mB) prefix init qs,
    run_history A prefix init qs = run_history B prefix init qs.

(* Proved, relative to the set VP of values a history may write (VP must contain every non-empty value): every
   sequential history — Create / Update / Delete / Get / List / Count / ListByStream / Compact; correct, stale, zero and
   future expected revisions; existing, missing, deleted, deleted-and-compacted keys; limits; explicit read revisions —
   whose written values are in VP, for any two adapters that refine the contract (whichever reading of DelCurrent each
   implements) and accept the values of VP.
   `plain_ok VP S`: the batches the programs issue (put-if-absent / compare-and-swap / put / delete with values in VP)
   lie outside the C11 deviations of S; `stamped_if_version S`: under the by-version reading every stored key carries
   a write stamp. *)
Theorem C12_engine_independent :
  forall (VP : bytes -> Prop), (forall v, v <> [] -> VP v) ->
  forall A mA (SA : sim A mA) B mB (SB : sim B mB) prefix init qs,
    plain_ok VP SA -> stamped_if_version SA -> plain_ok VP SB -> stamped_if_version SB -> Forall (hist_ok VP) qs ->
    run_history A prefix init qs = run_history B prefix init qs.
Proof. exact engine_independent. Qed.
Print Assumptions C12_engine_independent.

(* every adapter accepts the non-empty values; memkv, Badger and the wrappers accept every value — TiKV does not
   (finding C12-F1: a write of an empty value fails on TiKV) *)
Theorem C12_plain_ok_all : forall e, plain_ok nonempty (sim_of e).
Proof. exact plain_ok_of. Qed.
Print Assumptions C12_plain_ok_all.

Theorem C12_plain_ok_any_value : forall e, e <> ETiKV -> plain_ok anyvalue (sim_of e).
Proof. exact plain_any_of. Qed.
Print Assumptions C12_plain_ok_any_value.

Theorem C12_stamped_all : forall e, stamped_if_version (sim_of e).
Proof. exact stamped_of. Qed.
Print Assumptions C12_stamped_all.

(* all five engine models, on histories that write no empty value: the statement outside finding C12-F1 *)
Theorem C12_engine_independent_except_F1 : forall e1 e2 prefix init qs, Forall (hist_ok nonempty) qs ->
  run_history (adapter_of e1) prefix init qs = run_history (adapter_of e2) prefix init qs.
Proof.
  exact (fun e1 e2 prefix init qs H =>
           engine_independent nonempty nonempty_ok _ _ (sim_of e1) _ _ (sim_of e2) prefix init qs
             (plain_ok_of e1) (stamped_of e1) (plain_ok_of e2) (stamped_of e2) H).
Qed.
Print Assumptions C12_engine_independent_except_F1.

(* memkv, Badger and the metrics wrapper over them, on EVERY history, empty values included: since Get returns the
   key-value whatever the value (repair of C16-F8), what is left of C12-F1 is TiKV alone *)
Theorem C12_engine_independent_storing_empty : forall e1 e2 prefix init qs, e1 <> ETiKV -> e2 <> ETiKV ->
  run_history (adapter_of e1) prefix init qs = run_history (adapter_of e2) prefix init qs.
Proof.
  exact (fun e1 e2 prefix init qs H1 H2 =>
           engine_independent anyvalue anyvalue_ok _ _ (sim_of e1) _ _ (sim_of e2) prefix init qs
             (plain_any_of e1 H1) (stamped_of e1) (plain_any_of e2 H2) (stamped_of e2) (hist_any qs)).
Qed.
Print Assumptions C12_engine_independent_storing_empty.

(* every adapter answers as the contract itself would (the reference adapter is the contract on a plain map) *)
Theorem C12_as_contract : forall (VP : bytes -> Prop), (forall v, v <> [] -> VP v) ->
  forall A m (S : sim A m), plain_ok VP S -> stamped_if_version S ->
  forall prefix init qs, Forall (hist_ok VP) qs ->
  run_history A prefix init qs = run_history radapter prefix init qs.
Proof. exact (fun VP HVP A m S H H' prefix init qs => @rel_run_history_all VP HVP A m S H H' prefix init qs). Qed.
Print Assumptions C12_as_contract.

(* the compaction pass: every snapshot record stays unchanged-or-missing, so by-value and by-version agree *)
Theorem C12_compact_pass : forall (VP : bytes -> Prop) A m (S : sim A m), plain_ok VP S -> stamped_if_version S ->
  forall rev lim s r a b, Rel S s r ->
  match worker_run A true rev lim s a b, worker_run radapter true rev lim r a b with
  | None, None => True
  | Some (s', _), Some (r', _) => Rel S s' r'
  | _, _ => False
  end.
Proof. exact (fun VP A m S H H' => @rel_worker_run_true VP A m S H H'). Qed.
Print Assumptions C12_compact_pass.

(* the metrics wrapper is transparent for every history, compaction included *)
Theorem C12_wrapper_transparent : forall A prefix init qs,
  run_history (wrapper A) prefix init qs = run_history A prefix init qs.
Proof. exact wrapper_transparent. Qed.
Print Assumptions C12_wrapper_transparent.

(* the full statement is refuted by a write of an empty value (finding C12-F1): TiKV refuses the write, memkv and
   Badger store it and hand the key back *)
Theorem C12_full_refuted_memkv_tikv :
  snd (fst (run_history memkv registry 1000 f1_history)) <> snd (fst (run_history tikv registry 1000 f1_history)).
Proof. exact empty_value_memkv_tikv. Qed.
Print Assumptions C12_full_refuted_memkv_tikv.

(* the oracle evaluated on the implementation's transcripts accepts whatever the models produce *)
Theorem C12_oracle_sound : forall c, c12_valid c -> c12_check c = true -> c12_oracle c = None.
Proof. exact c12_oracle_sound. Qed.
Print Assumptions C12_oracle_sound.

(* ---- non-vacuity ---- *)
Definition ex_key : bytes := registry ++ [47; 97].
Definition ex_history : list req :=
  [QUpdate ex_key [118; 49] 7;                     (* guarded update of a missing key: the da987ef witness *)
   QCreate ex_key [118; 49]; QCreate ex_key [118; 50];
   QUpdate ex_key [118; 51] 1002; QUpdate ex_key [118; 52] 1002;
   QGet ex_key 0; QDelete ex_key 1002; QDelete ex_key 0; QCreate ex_key [118; 54];
   QList (registry ++ [47]) (registry ++ [48]) 0 1; QGet ex_key 1004].

(* create, delete, compact the tombstone away (DelCurrent on the flagged index record), then a guarded update *)
Definition ex_compact_history : list req :=
  [QCreate ex_key [118; 49]; QUpdate ex_key [118; 50] 1001; QDelete ex_key 0; QCompact 0;
   QUpdate ex_key [118; 51] 1002; QGet ex_key 0; QCreate ex_key [118; 52]; QCompact 1004;
   QList (registry ++ [47]) (registry ++ [48]) 0 0].

Example C12_ex_compact_valid : Forall (hist_ok nonempty) ex_compact_history.
Proof. repeat constructor; discriminate. Qed.

(* the pass really deletes: after the first Compact only the compaction record is left in the engine *)
Example C12_ex_compact_effect :
  fst (fst (run_history badger registry 1000 [QCreate ex_key [118; 49]; QDelete ex_key 0; QCompact 0])) =
  [(registry ++ compact_suffix, be64 1002)] /\
  snd (fst (run_history badger registry 1000 ex_compact_history)) =
  snd (fst (run_history memkv registry 1000 ex_compact_history)).
Proof. split; vm_compute; reflexivity. Qed.

Example C12_ex_valid : Forall (hist_ok nonempty) ex_history.
Proof. repeat constructor; discriminate. Qed.

(* a history in which writes succeed, fail on a condition, a delete tombstones the key and a create revives it;
   all five engines' models answer alike *)
Example C12_ex_transcript :
  snd (fst (run_history memkv registry 1000 ex_history)) =
  [PUpdate false 1001 None; PCreate true 1002; PCreate false 1003;
   PUpdate true 1004 None; PUpdate false 1005 (Some ([118; 51], 1004));
   PGet 1005 (Some ([118; 51], 1004)); PDelete false 1006 (Some ([118; 51], 1004));
   PDelete true 1007 (Some ([118; 51], 1004)); PCreate true 1008;
   PList 1008 [(ex_key, [118; 54], 1008)] false; PGet 1008 (Some ([118; 51], 1004))].
Proof. vm_compute. reflexivity. Qed.

Example C12_ex_engines :
  run_history memkv registry 1000 ex_history = run_history badger registry 1000 ex_history /\
  run_history memkv registry 1000 ex_history = run_history tikv registry 1000 ex_history.
Proof. split; vm_compute; reflexivity. Qed.

(* the oracle is not vacuous: it rejects the transcript pair the TiKV defect fixed by da987ef produced *)
Example C12_oracle_rejects :
  c12_oracle (mk_c12 1000 [QUpdate ex_key [118; 49] 7]
                [mk_run EMem [PUpdate false 1001 None] [] []; mk_run ETiKV [PErr] [] []]) = Some 0.
Proof. vm_compute. reflexivity. Qed.

(* regression for the repair of C16-F8: memkv and Badger answer the empty-value history alike, with the key returned *)
Example C12_empty_value_memkv_badger :
  run_history memkv registry 1000 f1_history = run_history badger registry 1000 f1_history /\
  snd (fst (run_history badger registry 1000 f1_history)) = [PCreate true 1001; PGet 1001 (Some ([], 1001))].
Proof. split; [exact empty_value_memkv_badger|vm_compute; reflexivity]. Qed.

(* and the oracle no longer excuses a memkv/Badger disagreement on an empty value as finding C12-F1 *)
Example C12_oracle_rejects_old_badger_get :
  c12_oracle (mk_c12 1000 f1_history
                [mk_run EMem [PCreate true 1001; PGet 1001 (Some ([], 1001))] [] [];
                 mk_run EBadger [PCreate true 1001; PGet 1001 None] [] []]) = Some 0.
Proof. vm_compute. reflexivity. Qed.
