(* C15 — Revisions keep increasing across leader changes and restarts.
   Theorems over Model/Handover.v (+ the lock of Model/Election.v). Histories are arbitrary lists of
   Create/Update/Delete requests (any keys, values, expected revisions: failed attempts included),
   the old leader stops after any request (the list is arbitrary, so is its length).
   Property theorems only: each is closed by `exact <lemma>` and followed by Print Assumptions. *)
From KB Require Import Base.Cases Model.Election Model.Handover Model.C15Cases Proofs.Handover Proofs.C15Cases.
Local Open Scope N_scope.

(* If the new leader's base v is at or above every stored revision (store well formed), then
   - the invariant Good (well-formed keys, allocator at or above every stored revision) holds and
     carries through every request sequence it serves, one revision per attempt;
   - a read at revision v sees the newest version of every key: List(0) = latest snapshot;
   - after any requests, every revision it hands out exceeds every revision stored before the
     hand-over and every revision stored at that moment;
   - after any requests, an Update or Delete guarded with a key's true stored revision passes the
     drift check and succeeds. *)
Theorem C15_safe_if_ahead : forall d v,
  WF d -> dmax d <= v ->
  Good d v /\
  list_at d v = list_latest d /\
  (forall os, let '(d', n', rs) := run_ops d v os in Good d' n' /\ n' = v + N.of_nat (length os)) /\
  (forall os o, let '(d', n', _) := run_ops d v os in
                let r := d_res (do_op d' n' o) in
                (h_class r = HOk \/ h_class r = HNotFound) -> dmax d < h_rev r /\ dmax d' < h_rev r) /\
  (forall os k x r, let '(d', n', _) := run_ops d v os in
                    0 < r -> k_idx (dget d' k) = Some (r, false) ->
                    h_class (d_res (do_op d' n' (HUpdate k x r))) = HOk /\
                    h_class (d_res (do_op d' n' (HDelete k r))) = HOk).
Proof. exact safe_if_ahead. Qed.
Print Assumptions C15_safe_if_ahead.

(* The new leader need not be a fresh node: it may have been synced to revisions as a follower
   (revision.SyncReadRevision -> SetCurrentRevision(r_i); both counters = max r_i <> 0). tso.Commit
   raises both counters to any larger value and never lowers one, so with v at or above every stored revision
   and every synced one the node deals from v, and C15_safe_if_ahead applies from Good d v. *)
Theorem C15_set_current : forall l v,
  deal (set_current l v) = N.max (deal l) v /\ committed (set_current l v) = N.max (committed l) v.
Proof. exact set_current_spec. Qed.
Print Assumptions C15_set_current.

Theorem C15_safe_if_ahead_follower : forall d v l,
  WF d -> dmax d <= v -> deal l <= v -> committed l <= v ->
  set_current l v = mkL v v /\ Good d (deal (set_current l v)).
Proof. exact safe_if_ahead_follower. Qed.
Print Assumptions C15_safe_if_ahead_follower.

(* well-formedness of the stored records needs no hypothesis on revisions: every request keeps it *)
Theorem C15_wf_preserved : forall d n o, WF d -> WF (d_store (do_op d n o)).
Proof. exact do_op_wf. Qed.
Print Assumptions C15_wf_preserved.

(* one revision per attempt; the largest stored revision is at most old base + number of attempts *)
Theorem C15_max_stored : forall d b os,
  Good d b ->
  let '(d', n', _) := run_ops d b os in
  n' = b + N.of_nat (length os) /\ dmax d' <= b + N.of_nat (length os).
Proof. exact max_stored. Qed.
Print Assumptions C15_max_stored.

(* the version handed to SetCurrentRevision is the engine clock right after the lock write *)
Theorem C15_elect_version : forall e w p h bc bu t1 t2 w' p' v g wr,
  elect e w p h bc bu t1 t2 = (w', p', EAcquired v, g, wr) ->
  v = clock e w' t2 /\ w_data w' = w_data w /\ p_lead p' = set_current (p_lead p) v.
Proof. exact elect_version. Qed.
Print Assumptions C15_elect_version.

(* memkv (wall clock, ns) and TiKV (PD timestamp): the clock is an environment input. Under the
   explicit ENVIRONMENT HYPOTHESIS "the clock has advanced by at least the number of write attempts
   since the old leader's base" (b + attempts <= t2; not derivable from the code: 1 per ns on memkv,
   2^18 per ms on TiKV), the new leader elected at reading t2 is ahead of every stored revision,
   hence safe by C15_safe_if_ahead. *)
(* clock_ahead_env_statement e (Proofs/Handover.v): for every world w with Good (w_data w) b, every history os
   served from base b, every election at environment readings t1,t2 with b + |os| <= t2 that acquires v:
   v = t2, dmax <= v and Good holds for the new leader. *)
Theorem C15_clock_ahead_memkv : clock_ahead_env_statement EMem.
Proof. exact clock_ahead_memkv. Qed.
Print Assumptions C15_clock_ahead_memkv.

Theorem C15_clock_ahead_tikv : clock_ahead_env_statement ETikv.
Proof. exact clock_ahead_tikv. Qed.
Print Assumptions C15_clock_ahead_tikv.

(* Badger: the clock is the number of committed read-write transactions. The full-strength
   statement "for every history the elected new leader's base is at or above every stored revision"
   is REFUTED (finding C15-F1): failed attempts consume revisions without committing. *)
Theorem C15_clock_ahead_badger_refuted : ~ clock_ahead EBadger.
Proof. exact clock_ahead_badger_refuted. Qed.
Print Assumptions C15_clock_ahead_badger_refuted.

(* the witness, spelled out: what the new leader does wrong *)
Theorem C15_F1_witness :
  let '(w, p, r, rs) := handover EBadger f1_history 0 0 0 0 in
  r = EAcquired 5 /\ dmax (w_data w) = 13 /\
  map h_rev rs = [2; 3; 4; 5; 6; 7; 8; 9; 10; 11; 12; 13] /\
  k_idx (dget (w_data w) kb) = Some (13, false) /\
  h_class (d_res (do_op (w_data w) (deal (p_lead p)) (HUpdate kb [1] 13))) = HErr /\
  d_res (do_op (w_data w) (deal (p_lead p)) (HCreate [99] [1])) = mkRes HOk 6 /\
  list_at (w_data w) (committed (p_lead p)) = [(ka, [120], 2)] /\
  list_latest (w_data w) = [(ka, [120], 2); (kb, [122], 13)].
Proof. exact f1_witness. Qed.
Print Assumptions C15_F1_witness.

(* the complement of the finding: outside the signature "engine = Badger and stored maximum >
   hand-over timestamp" — with the rate hypothesis for the environment clocks — the hand-over is
   safe in the sense of C15_safe_if_ahead *)
Theorem C15_safe_except_F1 : forall (e : engine) d v,
  WF d ->
  ~ (e = EBadger /\ v < dmax d) ->
  (e <> EBadger -> dmax d <= v) ->
  Good d v /\ list_at d v = list_latest d.
Proof. exact safe_except_F1. Qed.
Print Assumptions C15_safe_except_F1.

(* and Badger is fine when every attempt of the old leader commits (no failed writes): the
   transaction counter then advances as fast as the revision counter *)
Theorem C15_clock_ahead_badger_all_commit : forall w k os h bc bu t1 t2 p w' p' v g wr,
  let b := w_commits w in
  Good (w_data w) b ->
  let '(w1, _, rs) := serve_all w (mkP k (mkL b b)) os in
  Forall (fun r => h_class r = HOk) rs ->
  elect EBadger w1 p h bc bu t1 t2 = (w', p', EAcquired v, g, wr) ->
  dmax (w_data w') < v /\ Good (w_data w') v.
Proof. exact clock_ahead_badger_all_commit. Qed.
Print Assumptions C15_clock_ahead_badger_all_commit.

(* The executable oracle, evaluated on the implementation's observations, accepts every trace the
   model produces — except on the finding's signature, where it answers with the finding's code.
   c15_valid: a process is elected at most once and only synced as a follower (SetCurrentRevision from
   revision.SyncReadRevision) before that, only the current leader serves requests, and on the
   environment clocks the rate hypothesis holds at every hand-over (the clock reading is at or above
   every stored revision and every revision the node had synced to). Elections may fail — in
   particular when the timestamp read after the committed lock write fails (tf) — and be retried. *)
Theorem C15_oracle_sound : forall c, c15_valid c -> c15_check c = true ->
  c15_oracle c = None \/ (c15_oracle c = Some 1 /\ c_engine c = EBadger).
Proof. exact c15_oracle_sound. Qed.
Print Assumptions C15_oracle_sound.

(* leader.go OnStartedLeading raises the leader flag only AFTER SetCurrentRevision; IsLeader() admits
   writes. For every interleaving of client requests with the steps of the callback (parse, install,
   flag): the flag implies the parsed version is installed, and every revision ever handed out by
   the node is above it — hence, with C15_safe_if_ahead, above every stored revision whenever the
   parsed version is. (The order is load-bearing: the thorough-tier Campaign case of the driver
   polls IsLeader() while the callback is delayed and catches a swapped order on the real code.) *)
Theorem C15_flag_after_install : forall ls,
  let '(x, os) := nrun node0 ls in
  (n_flag x = true -> exists v, n_pc x = CbLeading v /\ v <= deal (n_lead x)) /\
  (forall r, In (Some r) os -> exists v, n_pc x = CbLeading v /\ v < r).
Proof. exact flag_after_install. Qed.
Print Assumptions C15_flag_after_install.

(* The new leader's READ revision: once the callback has installed the version, the committed revision
   stays at or above it, for every interleaving with client requests and with follower reads
   (revision.SyncReadRevision: `if IsLeader() return`, fetch from the leader, installRevision ->
   SetCurrentRevision) that were already past their IsLeader() check and whose answer from the old
   leader arrives after the take-over: tso.Commit only raises the committed revision.
   (This was finding C15-F2 while Commit was a plain store; Example C15_F2_regression keeps its witness.) *)
Theorem C15_committed_follows : forall ls, committed_ok (fst (nrun node0 ls)).
Proof. exact committed_follows. Qed.
Print Assumptions C15_committed_follows.

(* the oracle reports code 1 only on Badger (and then only when the base is behind, by its definition) *)
Theorem C15_oracle_code : forall c k, c15_oracle c = Some k -> k = 0 \/ (k = 1 /\ c_engine c = EBadger).
Proof. exact c15_oracle_code. Qed.
Print Assumptions C15_oracle_code.

(* ---- non-vacuity ---- *)
(* the hypotheses of C15_safe_if_ahead hold on a store with a live key, a deleted key and history *)
Definition d_ex : dstore :=
  [([97], mkK (Some (7, false)) [(3, Some [1]); (7, Some [2])]);
   ([98], mkK (Some (9, true)) [(4, Some [3]); (9, None)])].
Example C15_hyp_inhabited : WF d_ex /\ dmax d_ex <= 9 /\ list_latest d_ex = [([97], [2], 7)] /\
  k_idx (dget d_ex [97]) = Some (7, false).
Proof.
  split; [|vm_compute; repeat split; discriminate].
  repeat constructor; simpl.
  - exists (Some [2]). split; [reflexivity|split; discriminate].
  - exists None. split; [reflexivity|split; reflexivity].
Qed.
(* the hypothesis is needed: with a base of 6 < 7 the guarded update drifts *)
Example C15_hyp_needed : h_class (d_res (do_op d_ex 5 (HUpdate [97] [5] 7))) = HErr.
Proof. vm_compute. reflexivity. Qed.
(* the rate hypothesis of the environment clocks is satisfiable and sufficient on the F1 history *)
Example C15_env_ok :
  let '(w, p, r, _) := handover EMem f1_history 99 100 111 112 in
  r = EAcquired 112 /\ dmax (w_data w) = 112 /\
  h_class (d_res (do_op (w_data w) (deal (p_lead p)) (HUpdate kb [1] 112))) = HOk.
Proof. exact env_witness_ok. Qed.
(* the oracle is not trivially quiet: it rejects a new leader that hands out a stale revision *)
Example C15_oracle_rejects :
  c15_oracle (mkC15 EMem
    [(AElect 2 idB recB recB 5 5 false, OElect (EAcquired 5) ROk ROk d_ex (Some recB));
     (AOp 2 (HCreate [99] [1]), OOp (mkRes HOk 6))]) = Some 0.
Proof. vm_compute. reflexivity. Qed.

(* C15_oracle_sound is not vacuous: a script with a hand-over that the model reproduces is valid,
   on an environment clock (accepted) and on Badger (classified as the finding) *)
Fixpoint model_script (e : engine) (s : mstate) (acts : list act) : list (act * aobs) :=
  match acts with
  | [] => []
  | a :: tl => let '(s', o) := m_step e s a in (a, o) :: model_script e s' tl
  end.
Definition ex_acts (t2 t4 : N) : list act :=
  [AElect 1 idA recA recA 0 t2 false] ++ map (AOp 1) f1_history ++
  [ARestart; ASync 2 t2; AGet 2 t4; AElect 2 idB recB recB t4 t4 true; AElect 2 idB recB recB t4 t4 false; AList 2; AOp 2 (HUpdate kb [1] (t2 + 12)); AOp 2 (HCreate [99] [1])].
Example C15_valid_inhabited_env :
  let c := mkC15 EMem (model_script EMem mstate0 (ex_acts 100 112)) in
  c15_valid c /\ c15_check c = true /\ c15_oracle c = None.
Proof.
  split; [|split; vm_compute; reflexivity].
  vm_compute. intuition (try discriminate; try congruence).
Qed.
Example C15_valid_inhabited_badger :
  let c := mkC15 EBadger (model_script EBadger mstate0 (ex_acts 1 0)) in
  c15_valid c /\ c15_check c = true /\ c15_oracle c = Some 1.
Proof.
  split; [|split; vm_compute; reflexivity].
  vm_compute. intuition (try discriminate; try congruence).
Qed.

(* the callback order on a concrete interleaving: requests before the flag are refused, after it they
   get revisions above the installed version *)
Example C15_flag_order :
  snd (nrun node0 [NRequest; NParse 100; NRequest; NInstall; NRequest; NFlag; NRequest; NRequest])
  = [None; None; None; None; None; None; Some 101; Some 102].
Proof. vm_compute. reflexivity. Qed.

(* the witness of the former finding C15-F2: a read passes the leader check, the node wins (version 100
   installed, flag up), the old leader's answer 50 arrives late: the committed revision stays at 100 *)
Example C15_F2_regression :
  n_lead (fst (nrun node0 [NSyncCheck; NParse 100; NInstall; NFlag; NSyncInstall 50])) = mkL 100 100.
Proof. vm_compute. reflexivity. Qed.
