(* C15 — Revisions keep increasing across leader changes and restarts.
   Theorems over Model/Handover.v (+ the lock of Model/Election.v). Histories are arbitrary lists of
   Create/Update/Delete requests (any keys, values, expected revisions: failed attempts included),
   the old leader stops after any request (the list is arbitrary, so is its length).
   Property theorems only: each is closed by `exact <lemma>` and followed by Print Assumptions. *)
From KB Require Import Base.Cases Model.Election Model.Handover Model.C15Cases Proofs.Handover Proofs.C15Cases.
Local Open Scope N_scope.

(* If the new leader's base v is at or above every stored revision (store well formed), then
   - the invariant Good (well-formed keys, allocator at or above every stored revision) holds and
     carries through every request sequence it serves, one revision per attempt;
   - a read at revision v sees the newest version of every key: List(0) = latest snapshot;
   - after any requests, every revision it hands out exceeds every revision stored before the
     hand-over and every revision stored at that moment;
   - after any requests, an Update or Delete guarded with a key's true stored revision passes the
     drift check and succeeds. *)
Theorem C15_safe_if_ahead : forall d v,
  WF d -> dmax d <= v ->
  Good d v /\
  list_at d v = list_latest d /\
  (forall os, let '(d', n', rs) := run_ops d v os in Good d' n' /\ n' = v + N.of_nat (length os)) /\
  (forall os o, let '(d', n', _) := run_ops d v os in
                let r := d_res (do_op d' n' o) in
                (h_class r = HOk \/ h_class r = HNotFound) -> dmax d < h_rev r /\ dmax d' < h_rev r) /\
  (forall os k x r, let '(d', n', _) := run_ops d v os in
                    0 < r -> k_idx (dget d' k) = Some (r, false) ->
                    h_class (d_res (do_op d' n' (HUpdate k x r))) = HOk /\
                    h_class (d_res (do_op d' n' (HDelete k r))) = HOk).
Proof. exact safe_if_ahead. Qed.
Print Assumptions C15_safe_if_ahead.

(* The new leader need not be a fresh node: it may have been synced to revisions as a follower
   (revision.SyncReadRevision -> SetCurrentRevision(r_i); both counters = max r_i <> 0). tso.Commit
   raises both counters to any larger value and never lowers one, so with v at or above every stored revision
   and every synced one the node deals from v, and C15_safe_if_ahead applies from Good d v. *)
Theorem C15_set_current : forall l v,
  deal (set_current l v) = N.max (deal l) v /\ committed (set_current l v) = N.max (committed l) v.
Proof. exact set_current_spec. Qed.
Print Assumptions C15_set_current.

Theorem C15_safe_if_ahead_follower : forall d v l,
  WF d -> dmax d <= v -> deal l <= v -> committed l <= v ->
  set_current l v = mkL v v /\ Good d (deal (set_current l v)).
Proof. exact safe_if_ahead_follower. Qed.
Print Assumptions C15_safe_if_ahead_follower.

(* later reads, and refused requests: after any requests of the new leader a read at its committed revision
   still sees the newest version of every key; the header of a Succeeded=false response is above every
   stored revision as well *)
Theorem C15_reads_see_latest : forall d v os,
  WF d -> dmax d <= v ->
  let '(d', n', _) := run_ops d v os in list_at d' n' = list_latest d'.
Proof. exact reads_see_latest. Qed.
Print Assumptions C15_reads_see_latest.

Theorem C15_refused_header_above : forall d n o,
  Good d n -> h_class (d_res (do_op d n o)) = HCond -> dmax d < h_rev (d_res (do_op d n o)).
Proof. exact refused_header_above. Qed.
Print Assumptions C15_refused_header_above.

(* well-formedness of the stored records needs no hypothesis on revisions: every request keeps it *)
Theorem C15_wf_preserved : forall d n o, WF d -> WF (d_store (do_op d n o)).
Proof. exact do_op_wf. Qed.
Print Assumptions C15_wf_preserved.

(* one revision per attempt; the largest stored revision is at most old base + number of attempts *)
Theorem C15_max_stored : forall d b os,
  Good d b ->
  let '(d', n', _) := run_ops d b os in
  n' = b + N.of_nat (length os) /\ dmax d' <= b + N.of_nat (length os).
Proof. exact max_stored. Qed.
Print Assumptions C15_max_stored.

(* the version handed to SetCurrentRevision is the engine clock right after the lock write *)
Theorem C15_elect_version : forall e w p h bc bu t1 t2 w' p' v g wr,
  elect e w p h bc bu t1 t2 = (w', p', EAcquired v, g, wr) ->
  v = clock e w' t2 /\ w_data w' = w_data w /\ p_lead p' = set_current (p_lead p) v.
Proof. exact elect_version. Qed.
Print Assumptions C15_elect_version.

(* memkv (wall clock, ns) and TiKV (PD timestamp): the clock is an environment input. Under the
   explicit ENVIRONMENT HYPOTHESIS "the clock has advanced by at least the number of write attempts
   since the old leader's base" (b + attempts <= t2; not derivable from the code: 1 per ns on memkv,
   2^18 per ms on TiKV), the new leader elected at reading t2 is ahead of every stored revision,
   hence safe by C15_safe_if_ahead. *)
(* clock_ahead_env_statement e (Proofs/Handover.v): for every world w with Good (w_data w) b, every history os
   served from base b, every election at environment readings t1,t2 with b + |os| <= t2 that acquires v:
   v = t2, dmax <= v and Good holds for the new leader. *)
Theorem C15_clock_ahead_memkv_under_rate_hyp : clock_ahead_env_statement EMem.
Proof. exact clock_ahead_memkv. Qed.
Print Assumptions C15_clock_ahead_memkv_under_rate_hyp.

Theorem C15_clock_ahead_tikv_under_rate_hyp : clock_ahead_env_statement ETikv.
Proof. exact clock_ahead_tikv. Qed.
Print Assumptions C15_clock_ahead_tikv_under_rate_hyp.

(* Two different propositions, named apart: clock_ahead_env_statement e carries the rate hypothesis
   b + attempts <= t2 and is what holds for the environment clocks; clock_ahead e (Proofs/C15Cases.v) is the
   unconditional statement "whatever the history, the elected new leader's base is at or above every stored
   revision". The unconditional one is refuted for Badger (finding C15-F1, below) AND for memkv — a wall
   clock that does not advance is no better; on memkv/TiKV the hypothesis is evaluated on every hand-over of
   every generated case (c15_validb), on Badger nothing can make it true. *)
Theorem C15_clock_ahead_env_refuted_without_rate_hyp : ~ clock_ahead EMem.
Proof. exact clock_ahead_env_refuted_without_rate_hyp. Qed.
Print Assumptions C15_clock_ahead_env_refuted_without_rate_hyp.

(* Badger: the clock is the number of committed read-write transactions. The full-strength
   statement "for every history the elected new leader's base is at or above every stored revision"
   is REFUTED (finding C15-F1): failed attempts consume revisions without committing. *)
Theorem C15_clock_ahead_badger_refuted : ~ clock_ahead EBadger.
Proof. exact clock_ahead_badger_refuted. Qed.
Print Assumptions C15_clock_ahead_badger_refuted.

(* the witness, spelled out: what the new leader does wrong *)
Theorem C15_F1_witness :
  let '(w, p, r, rs) := handover EBadger f1_history 0 0 0 0 in
  r = EAcquired 5 /\ dmax (w_data w) = 13 /\
  map h_rev rs = [2; 3; 4; 5; 6; 7; 8; 9; 10; 11; 12; 13] /\
  k_idx (dget (w_data w) kb) = Some (13, false) /\
  h_class (d_res (do_op (w_data w) (deal (p_lead p)) (HUpdate kb [1] 13))) = HErr /\
  d_res (do_op (w_data w) (deal (p_lead p)) (HCreate [99] [1])) = mkRes HOk 6 /\
  list_at (w_data w) (committed (p_lead p)) = [(ka, [120], 2)] /\
  list_latest (w_data w) = [(ka, [120], 2); (kb, [122], 13)].
Proof. exact f1_witness. Qed.
Print Assumptions C15_F1_witness.

(* the complement of the finding in engine terms: on every engine other than Badger the statement under
   the rate hypothesis holds (for a fixed data state and version this is just C15_safe_if_ahead) *)
Theorem C15_clock_ahead_except_badger : forall e, e <> EBadger -> clock_ahead_env_statement e.
Proof. exact clock_ahead_env_all. Qed.
Print Assumptions C15_clock_ahead_except_badger.

(* and Badger is fine when every attempt of the old leader commits (no failed writes): the
   transaction counter then advances as fast as the revision counter *)
Theorem C15_clock_ahead_badger_all_commit : forall w k os h bc bu t1 t2 p w' p' v g wr,
  let b := w_commits w in
  Good (w_data w) b ->
  let '(w1, _, rs) := serve_all w (mkP k (mkL b b)) os in
  Forall (fun r => h_class r = HOk) rs ->
  elect EBadger w1 p h bc bu t1 t2 = (w', p', EAcquired v, g, wr) ->
  dmax (w_data w') < v /\ Good (w_data w') v.
Proof. exact clock_ahead_badger_all_commit. Qed.
Print Assumptions C15_clock_ahead_badger_all_commit.

(* The executable oracle, evaluated on the implementation's observations, accepts every trace the
   model produces — except on the finding's signature, where it answers with the finding's code.
   c15_valid: a process is elected at most once and only synced as a follower (SetCurrentRevision from
   revision.SyncReadRevision) before that, only the current leader serves requests, and on the
   environment clocks the rate hypothesis holds at every hand-over (the clock reading is at or above
   every stored revision and every revision the node had synced to). Elections may fail — in
   particular when the timestamp read after the committed lock write fails (tf) — and be retried. *)
Theorem C15_oracle_sound : forall c, c15_valid c -> c15_check c = true ->
  c15_oracle c = None \/ (c15_oracle c = Some 1 /\ c_engine c = EBadger).
Proof. exact c15_oracle_sound. Qed.
Print Assumptions C15_oracle_sound.

(* leader.go OnStartedLeading raises the leader flag only AFTER SetCurrentRevision; IsLeader() admits
   writes. For every interleaving of client requests with the steps of the callback (parse, install,
   flag): the flag implies the parsed version is installed, and every revision ever handed out by
   the node is above it — hence, with C15_safe_if_ahead, above every stored revision whenever the
   parsed version is. (The order is load-bearing: the thorough-tier Campaign case of the driver
   polls IsLeader() while the callback is delayed and catches a swapped order on the real code.) *)
(* (nstep encodes leader.go's order — parse, SetCurrentRevision, flag — in its guards, so this theorem is
   about that order; the order itself is tied to the code by the Campaign cases (camp_check). That it is
   load-bearing: C15_flag_order_needed, on the same callback with the flag raised first.) *)
Theorem C15_flag_order_needed :
  exists ls r v, In (Some r) (snd (nrun_swapped node0 ls)) /\ n_pc (fst (nrun_swapped node0 ls)) = CbLeading v /\ r <= v.
Proof. exact flag_order_needed. Qed.
Print Assumptions C15_flag_order_needed.

Theorem C15_flag_after_install : forall ls,
  let '(x, os) := nrun node0 ls in
  (n_flag x = true -> exists v, n_pc x = CbLeading v /\ v <= deal (n_lead x)) /\
  (forall r, In (Some r) os -> exists v, n_pc x = CbLeading v /\ v < r).
Proof. exact flag_after_install. Qed.
Print Assumptions C15_flag_after_install.

(* The new leader's READ revision: once the callback has installed the version, the committed revision
   stays at or above it, for every interleaving with client requests and with follower reads
   (revision.SyncReadRevision: `if IsLeader() return`, fetch from the leader, installRevision ->
   SetCurrentRevision) that were already past their IsLeader() check and whose answer from the old
   leader arrives after the take-over: tso.Commit only raises the committed revision.
   (This was finding C15-F2 while Commit was a plain store; Example C15_F2_regression keeps its witness.) *)
Theorem C15_committed_follows : forall ls, committed_ok (fst (nrun node0 ls)).
Proof. exact committed_follows. Qed.
Print Assumptions C15_committed_follows.

(* Validity is decidable and the shards evaluate it on every case: c15_checkv = validity && agreement
   with the model. What a green run therefore establishes for each script case, with no Prop-level
   hypothesis left: *)
Theorem C15_validb_sound : forall c, c15_validb c = true -> c15_valid c.
Proof. exact c15_validb_sound. Qed.
Print Assumptions C15_validb_sound.

Theorem C15_checkv_sound : forall c, c15_checkv c = true ->
  c15_oracle c = None \/ (c15_oracle c = Some 1 /\ c_engine c = EBadger).
Proof. exact c15_checkv_sound. Qed.
Print Assumptions C15_checkv_sound.

(* The runs of the real leader.NewLeaderElection(...).Campaign() (plain, timestamp outage, follower read
   lost, follower read answered late) are cases too: the harness's event order as labels of the callback
   model. If the model reproduces what was observed (revisions handed out, final committed revision,
   installed version; the clock reading at or above the stored maximum), the observations satisfy the
   property: every revision handed out exceeds the stored maximum and the read revision has not fallen
   below the installed version. *)
Theorem C15_campaign_sound : forall k, camp_check k = true -> camp_oracle k = None.
Proof. exact camp_oracle_sound. Qed.
Print Assumptions C15_campaign_sound.

(* every case kind the driver emits *)
Theorem C15_any_sound : forall c, c15_any_check c = true ->
  c15_any_oracle c = None \/
  (c15_any_oracle c = Some 1 /\ match c with KScript s => c_engine s = EBadger | KCampaign _ => False end).
Proof. exact c15_any_sound. Qed.
Print Assumptions C15_any_sound.

(* the oracle reports code 1 only on Badger (and then only when the base is behind, by its definition) *)
Theorem C15_oracle_code : forall c k, c15_oracle c = Some k -> k = 0 \/ (k = 1 /\ c_engine c = EBadger).
Proof. exact c15_oracle_code. Qed.
Print Assumptions C15_oracle_code.

(* ---- non-vacuity ---- *)
(* the hypotheses of C15_safe_if_ahead hold on a store with a live key, a deleted key and history *)
Definition d_ex : dstore :=
  [([97], mkK (Some (7, false)) [(3, Some [1]); (7, Some [2])]);
   ([98], mkK (Some (9, true)) [(4, Some [3]); (9, None)])].
Example C15_hyp_inhabited : WF d_ex /\ dmax d_ex <= 9 /\ list_latest d_ex = [([97], [2], 7)] /\
  k_idx (dget d_ex [97]) = Some (7, false).
Proof.
  split; [|vm_compute; repeat split; discriminate].
  repeat constructor; simpl.
  - exists (Some [2]). split; [reflexivity|split; discriminate].
  - exists None. split; [reflexivity|split; reflexivity].
Qed.
(* the hypothesis is needed: with a base of 6 < 7 the guarded update drifts *)
Example C15_hyp_needed : h_class (d_res (do_op d_ex 5 (HUpdate [97] [5] 7))) = HErr.
Proof. vm_compute. reflexivity. Qed.
(* the rate hypothesis of the environment clocks is satisfiable and sufficient on the F1 history *)
Example C15_env_ok :
  let '(w, p, r, _) := handover EMem f1_history 99 100 111 112 in
  r = EAcquired 112 /\ dmax (w_data w) = 112 /\
  h_class (d_res (do_op (w_data w) (deal (p_lead p)) (HUpdate kb [1] 112))) = HOk.
Proof. exact env_witness_ok. Qed.
(* the oracle is not trivially quiet: it rejects a new leader that hands out a stale revision *)
Example C15_oracle_rejects :
  c15_oracle (mkC15 EMem
    [(AElect 2 idB recB recB 5 5 false, OElect (EAcquired 5) ROk ROk d_ex (Some recB));
     (AOp 2 (HCreate [99] [1]), OOp (mkRes HOk 6))]) = Some 0.
Proof. vm_compute. reflexivity. Qed.

(* C15_oracle_sound is not vacuous: a script with a hand-over that the model reproduces is valid,
   on an environment clock (accepted) and on Badger (classified as the finding) *)
Fixpoint model_script (e : engine) (s : mstate) (acts : list act) : list (act * aobs) :=
  match acts with
  | [] => []
  | a :: tl => let '(s', o) := m_step e s a in (a, o) :: model_script e s' tl
  end.
Definition ex_acts (t2 t4 : N) : list act :=
  [AElect 1 idA recA recA 0 t2 false] ++ map (AOp 1) f1_history ++
  [ARestart; ASync 2 t2; AGet 2 t4; AElect 2 idB recB recB t4 t4 true; AElect 2 idB recB recB t4 t4 false; AList 2; AOp 2 (HUpdate kb [1] (t2 + 12)); AOp 2 (HCreate [99] [1])].
Example C15_valid_inhabited_env :
  let c := mkC15 EMem (model_script EMem mstate0 (ex_acts 100 112)) in
  c15_valid c /\ c15_check c = true /\ c15_oracle c = None.
Proof.
  split; [|split; vm_compute; reflexivity].
  vm_compute. intuition (try discriminate; try congruence).
Qed.
Example C15_valid_inhabited_badger :
  let c := mkC15 EBadger (model_script EBadger mstate0 (ex_acts 1 0)) in
  c15_valid c /\ c15_check c = true /\ c15_oracle c = Some 1.
Proof.
  split; [|split; vm_compute; reflexivity].
  vm_compute. intuition (try discriminate; try congruence).
Qed.

(* the callback order on a concrete interleaving: requests before the flag are refused, after it they
   get revisions above the installed version *)
Example C15_flag_order :
  snd (nrun node0 [NRequest; NParse 100; NRequest; NInstall; NRequest; NFlag; NRequest; NRequest])
  = [None; None; None; None; None; None; Some 101; Some 102].
Proof. vm_compute. reflexivity. Qed.

(* the witness of the former finding C15-F2: a read passes the leader check, the node wins (version 100
   installed, flag up), the old leader's answer 50 arrives late: the committed revision stays at 100 *)
Example C15_F2_regression :
  n_lead (fst (nrun node0 [NSyncCheck; NParse 100; NInstall; NFlag; NSyncInstall 50])) = mkL 100 100.
Proof. vm_compute. reflexivity. Qed.

(* campaign cases: the late-answer run as the model predicts it is accepted; a run whose read revision
   fell back (what the code did before the repair of C15-F2) or that handed out a low revision is rejected *)
Definition camp_late : camp_case :=
  mkCamp 100 90 [NSyncCheck; NParse 100; NInstall; NFlag; NRequest; NRequest; NSyncInstall 50; NRequest]
         [None; None; None; None; Some 101; Some 102; None; Some 103] 103.
Example C15_campaign_inhabited : camp_check camp_late = true /\ camp_oracle camp_late = None.
Proof. vm_compute. split; reflexivity. Qed.
Example C15_campaign_rejects :
  camp_oracle (mkCamp 100 90 [NParse 100; NInstall; NFlag; NRequest] [None; None; None; Some 101] 50) = Some 0 /\
  camp_oracle (mkCamp 100 90 [NFlag; NRequest; NParse 100; NInstall] [None; Some 1; None; None] 100) = Some 0.
Proof. vm_compute. split; reflexivity. Qed.
(* validity evaluates to true on the scripts of C15_valid_inhabited_* and to false when a stopped leader writes again *)
Example C15_validb_evaluates :
  c15_validb (mkC15 EMem (model_script EMem mstate0 (ex_acts 100 112))) = true /\
  c15_validb (mkC15 EMem (model_script EMem mstate0 (ex_acts 100 112 ++ [AOp 1 (HCreate [99] [1])]))) = false.
Proof. vm_compute. split; reflexivity. Qed.

(* hypotheses of C15_max_stored / C15_elect_version / C15_safe_if_ahead_follower / C15_clock_ahead_badger_all_commit
   on concrete states *)
Example C15_max_stored_inhabited :
  Good [] 1 /\ (let '(d', n', _) := run_ops [] 1 f1_history in n' = 13 /\ dmax d' = 13).
Proof. split; [constructor|vm_compute; split; reflexivity]. Qed.
Example C15_elect_version_inhabited :
  exists w' p' g wr, elect EBadger world0 proc0 idA recA recA 0 0 = (w', p', EAcquired 1, g, wr).
Proof. eexists _, _, _, _. vm_compute. reflexivity. Qed.
Example C15_follower_inhabited :
  WF d_ex /\ dmax d_ex <= 9 /\ deal (mkL 8 8) <= 9 /\ committed (mkL 8 8) <= 9 /\ set_current (mkL 8 8) 9 = mkL 9 9.
Proof.
  split; [exact (proj1 C15_hyp_inhabited)|]. vm_compute. repeat split; discriminate.
Qed.
Example C15_badger_all_commit_inhabited :
  let w := fst (fst (fst (fst (elect EBadger world0 proc0 idA recA recA 0 0)))) in
  Good (w_data w) (w_commits w) /\
  (let '(w1, _, rs) := serve_all w (mkP cand0 (mkL (w_commits w) (w_commits w))) [HCreate ka [1]; HCreate kb [2]] in
   Forall (fun r => h_class r = HOk) rs /\
   exists w' p' g wr, elect EBadger w1 proc0 idB recB recB 0 0 = (w', p', EAcquired 4, g, wr)).
Proof.
  split; [vm_compute; constructor|]. vm_compute. split; [repeat constructor|]. eexists _, _, _, _. reflexivity.
Qed.

(* clause (c) after the first request: a List(0) that no longer shows an untouched live key of the dump is rejected;
   one that shows it (and whatever the leader wrote itself) is accepted *)
Example C15_oracle_list_after_request :
  c15_oracle (mkC15 EMem
    [(AElect 2 idB recB recB 9 9 false, OElect (EAcquired 9) ROk ROk d_ex (Some recB));
     (AOp 2 (HCreate [99] [1]), OOp (mkRes HOk 10));
     (AList 2, OList 10 [([99], [1], 10)])]) = Some 0 /\
  c15_oracle (mkC15 EMem
    [(AElect 2 idB recB recB 9 9 false, OElect (EAcquired 9) ROk ROk d_ex (Some recB));
     (AOp 2 (HCreate [99] [1]), OOp (mkRes HOk 10));
     (AList 2, OList 10 [([97], [2], 7); ([99], [1], 10)])]) = None.
Proof. vm_compute. split; reflexivity. Qed.
