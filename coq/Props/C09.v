(* C09 — Indeterminate storage outcomes are repaired, never mis-reported.
   Property theorems only: each is closed by `exact <lemma>` and followed by Print Assumptions.
   The system: Model/RetrySys.v (client write programs, sequencer with the enqueue-before-commit order, FIFO retry
   queue, one retry iteration in atomic actions, compaction cap; every commit takes an environment choice).
   A label list is an arbitrary interleaving of all of these, with arbitrary fault placements. *)
From KB Require Import Base.Cases Model.RetrySys Model.C09Cases Model.C09Fronts Model.RetryCompact
  Proofs.RetryBase Proofs.RetryInv1 Proofs.RetryInv2 Proofs.RetryProps Proofs.RetryInv3 Proofs.RetryInvX Proofs.RetryAck Proofs.C09Cases Proofs.C09Sim Proofs.C09Oracle Proofs.C09Fronts Proofs.RetryTerm Proofs.RetryDrain Proofs.C09Fuel Proofs.C09Examples Proofs.RetryCompact Proofs.RetryCompactThms Proofs.RetryWitness.
Local Open Scope N_scope.

(* ---------- error class ---------- *)
(* a request one of whose commits was answered "outcome unknown" ends in an RPC error of the unknown-outcome class —
   never Succeeded = true, never a condition failure; all verbs, both create fall-backs, every interleaving.
   (wf_label: unknown-outcome errors do not wrap a compare failure — true of every engine in /repo, see the
   classification table the driver checks; client values are not the deletion marker — C03; a repair commit is not
   answered with a bare abort.) *)
Theorem C09_error_class : forall r0 ls,
  Forall wf_label ls -> let s := run (init_state r0) ls in
  forall t th, get_thread t (s_threads s) = Some th -> t_unk th = true ->
  match t_pc th with
  | PDone r => r = RErr true
  | PNotify _ eo | PRespond _ eo => eo = Some (EUncertain false)
  | _ => False
  end.
Proof. exact error_class. Qed.
Print Assumptions C09_error_class.

(* ---------- acknowledged writes are durable ---------- *)
(* Succeeded = true (all verbs): the request's version — its allocated revision, its value, or the deletion marker — is in
   the key's version chain, and stays there along every continuation (whatever faults, repairs and writes follow) *)
Theorem C09_ack_durable : forall r0 ls,
  Forall wf_label ls -> let s := run (init_state r0) ls in
  forall t th h kv, get_thread t (s_threads s) = Some th -> t_pc th = PDone (ROk h kv) ->
  exists v, written (t_op th) v /\
    forall ls', In (h, v) (vers (run s ls') (op_key (t_op th))).
Proof. exact ack_durable. Qed.
Print Assumptions C09_ack_durable.

(* ---------- progress ---------- *)
(* whatever sits in the slot of the next revision — an unknown-outcome event included — the sequencer commits that
   revision within three of its own actions *)
Theorem C09_progress_not_blocked : forall r0 ls,
  let s := run (init_state r0) ls in
  forall ev, s_seq s = SeqIdle -> s_slots s (s_committed s + 1) = Some ev ->
  exists n, (n <= 3)%nat /\ s_committed (run s (seq_steps n)) = s_committed s + 1 /\ s_seq (run s (seq_steps n)) = SeqIdle.
Proof. exact progress_not_blocked. Qed.
Print Assumptions C09_progress_not_blocked.

(* every allocated, uncommitted revision is somewhere: with a request, with the repair write, in its slot, or with the sequencer *)
Theorem C09_progress_located : forall r0 ls,
  let s := run (init_state r0) ls in
  forall r, s_committed s < r <= s_dealt s -> located s r.
Proof. exact progress_located. Qed.
Print Assumptions C09_progress_located.

(* ... so once no request and no repair write is in flight, the sequencer alone commits every allocated revision *)
Theorem C09_progress : forall r0 ls,
  let s := run (init_state r0) ls in
  no_live_request s -> retry_rev (s_retry s) = None -> s_seq s = SeqIdle ->
  exists n, s_committed (run s (seq_steps n)) = s_dealt s /\ s_seq (run s (seq_steps n)) = SeqIdle.
Proof. exact progress_all_resolved. Qed.
Print Assumptions C09_progress.

(* ---------- compaction cap ---------- *)
(* the revision Backend.Compact answers with (and compacts at) is below every revision whose outcome is still open:
   every queued one, and every one not yet committed — in particular the event the sequencer holds between
   Append and SetCurrentRevision *)
Theorem C09_compact_capped : forall r0 ls,
  let s := run (init_state r0) ls in
  forall t th req cur e, get_thread t (s_threads s) = Some th -> t_op th = OCompact req -> t_pc th = PCompact2 cur ->
  exists c, thread_step s (t_op th) (t_pc th) e = (s, PDone (RCompacted c), false) /\
            c <= s_committed s /\ forall x, unresolved s x -> c < x.
Proof. exact compact_capped_run. Qed.
Print Assumptions C09_compact_capped.

(* why the order of backend.go:233/235 matters: with SetCurrentRevision before Append (step_gen true) a compaction that
   runs between the two compacts at the very revision of the unknown write that is about to be queued *)
Definition swapped_witness : list label :=
  [LInvoke 0 (OCreate 0 [118]); LThread 0 EnvOk; LThread 0 (EnvUnknown true false); LThread 0 EnvOk; LThread 0 EnvOk;
   LSeq; LSeq;                                   (* slot taken, classified; revision 11 committed — not yet queued *)
   LInvoke 1 (OCompact 0); LThread 1 EnvOk; LThread 1 EnvOk;
   LSeq].                                        (* now queued *)
Example C09_compact_swapped_order_refuted :
  let s := run_gen true (init_state 10) swapped_witness in
  (exists th, get_thread 1 (s_threads s) = Some th /\ t_pc th = PDone (RCompacted 11)) /\ qrevs s = [11].
Proof. vm_compute. split; [eexists; split; reflexivity|reflexivity]. Qed.
(* the same labels under the code's order: the compaction is capped at 10 *)
Example C09_compact_code_order :
  let s := run (init_state 10) swapped_witness in
  (exists th, get_thread 1 (s_threads s) = Some th /\ t_pc th = PDone (RCompacted 10)) /\ qrevs s = [11].
Proof. vm_compute. split; [eexists; split; reflexivity|reflexivity]. Qed.

(* ---------- convergence, full strength ----------
   For every label list (wf_label: the engine contract — an unknown-outcome error does not wrap a compare failure, a
   repair commit is not answered with a bare abort while its compare still holds — and client values differ from the
   deletion marker): any number of unknown outcomes per key outstanding at once, on any commit of any request, landed
   or not; unknown outcomes (landed or not) and definite failures on repair writes; client writes racing the repair
   between its read, its Deal and its commit; getter failures; empty values; compactions; clock ticks; any interleaving.
   In every quiescent state, for EVERY earlier revision R0 and every key: replaying the published events newer than R0
   over the snapshot at R0 gives the snapshot at the committed revision. *)
Theorem C09_converges : forall r0 ls,
  Forall wf_label ls -> let s := run (init_state r0) ls in
  quiescentb s = true -> forall R0 k, converged_at s R0 k.
Proof. exact converges. Qed.
Print Assumptions C09_converges.

(* the hypotheses are satisfiable by a run with faults: two landed unknown writes (update, delete), one that did not
   land, a repair write that itself lands with unknown outcome and is repaired again *)
Example C09_converges_hypotheses_inhabited :
  Forall wf_label repaired_witness /\
  let s := run (init_state 10) repaired_witness in
  quiescentb s = true /\ s_committed s = 18 /\ length (s_events s) = 4%nat /\
  snap s 12 0 = Some (v1, 11) /\ snap s 18 0 = Some (v2, 18) /\ snap s 12 1 = Some (v1, 12) /\ snap s 18 1 = None.
Proof. exact repaired_witness_ok. Qed.

(* the fault placements of the former findings C09-F1 (repair write answered "unknown" without being applied, or failing
   definitely) and C09-F2 (landed empty value), on the repaired retry loop: the landed write is announced exactly once *)
Example C09_former_findings_converge :
  (Forall wf_label F1_scenario /\ let s := run (init_state 10) F1_scenario in
     quiescentb s = true /\ s_committed s = 14 /\ snap s 11 0 = Some (v1, 11) /\ snap s 14 0 = Some (v2, 14) /\
     map ev_obs (s_events s) = [(VPut, 0, v2, 14, 14); (VCreate, 0, v1, 11, 11)]) /\
  (Forall wf_label F1_scenario_error /\ let s := run (init_state 10) F1_scenario_error in
     quiescentb s = true /\ s_committed s = 14 /\ snap s 14 0 = Some (v2, 14) /\
     map ev_obs (s_events s) = [(VPut, 0, v2, 14, 14); (VCreate, 0, v1, 11, 11)]) /\
  (Forall wf_label F2_scenario /\ let s := run (init_state 10) F2_scenario in
     quiescentb s = true /\ s_committed s = 13 /\ snap s 13 0 = Some ([], 13) /\
     map ev_obs (s_events s) = [(VPut, 0, [], 13, 13); (VCreate, 0, v1, 11, 11)]).
Proof. exact fixed_scenarios_ok. Qed.

(* the correspondence oracle on observations the model itself produces (instances; the general statement is
   C09_oracle_sound below) *)
Example C09_oracle_on_model :
  (c09_check (self_case sc_clean) = true /\ c09_oracle (self_case sc_clean) = None) /\
  (c09_check (self_case sc_F1) = true /\ c09_oracle (self_case sc_F1) = None) /\
  (c09_check (self_case sc_F2) = true /\ c09_oracle (self_case sc_F2) = None).
Proof. exact oracle_on_model. Qed.

(* ---------- soundness of the correspondence oracle, clause by clause ----------
   On a case that passed the check (the recorded observation IS the model's observation of the script) all six clauses of
   the oracle are theorems, and so is their conjunction C09_oracle_sound: c09_oracle c = None.
   c09_valid c: every script step is inside the stated assumptions (not step_outside; a DWrite carries a write request; no
   repair commit answered with a bare abort) — nothing else; it is decidable (C09_oracle_valid_decidable).
   c09_check c = true: the recorded observation and events are the model's, and (still evaluated per case on every run,
   although it is now a theorem for every well-formed script: C09_oracle_drained_quiescent) wherever the oracle's
   bookkeeping over observations regards a List as drained the model state is quiescent. *)
Theorem C09_oracle_clause_class : forall c,
  Forall dstep_wf (c_script c) -> c09_check c = true -> forallb class_ok (c_obs c) = true.
Proof. exact oracle_clause_class. Qed.
Print Assumptions C09_oracle_clause_class.

Theorem C09_oracle_clause_increasing : forall c,
  Forall dstep_wf (c_script c) -> c09_check c = true ->
  increasing (map (fun e : evobs => let '(_, _, _, r, _) := e in r) (c_events c)) = true.
Proof. exact oracle_clause_increasing. Qed.
Print Assumptions C09_oracle_clause_increasing.

Theorem C09_oracle_clause_converges : forall c,
  c09_valid c -> c09_check c = true -> cs_conv (conv_of c) = true.
Proof. exact oracle_clause_converges. Qed.
Print Assumptions C09_oracle_clause_converges.

(* (2,3) bookkeeping: every Compact header is below every unresolved revision the oracle reconstructs from the observation
   (the retry queue followed by the unknown events still in their slots or with the sequencer) and at most the committed
   revision. Proved through a simulation between the oracle's book and the model state over all eight macro steps. *)
Theorem C09_oracle_clause_book : forall c, c09_valid c -> c09_check c = true -> bk_ok (book_of c) = true.
Proof. exact oracle_clause_book. Qed.
Print Assumptions C09_oracle_clause_book.

(* the link c09_check also evaluates per case is a theorem for every well-formed script *)
Theorem C09_oracle_drained_quiescent : forall ds, Forall dstep_wf ds -> drained_quiescent minit book0 ds = true.
Proof. exact drained_quiescent_holds. Qed.
Print Assumptions C09_oracle_drained_quiescent.

(* (4a) every acknowledged write whose revision is committed when the script ends has exactly one delivered event with its
   revision, and that event carries the request's verb, key and value   [<- C09_ack_durable + unique event revisions] *)
Theorem C09_oracle_clause_ack : forall c, c09_valid c -> c09_check c = true ->
  forallb (ack_event_ok (c_events c) (final_committed (c_obs c))) (combine (c_script c) (c_obs c)) = true.
Proof. exact oracle_clause_ack. Qed.
Print Assumptions C09_oracle_clause_ack.

(* (6) after a drained List, a conditional update at the listed revision of a listed key succeeds   [<- the simulation
   (drained => quiescent) + Inv2: the listed revision is the newest version and the index agrees with it] *)
Theorem C09_oracle_clause_probe : forall c, c09_valid c -> c09_check c = true -> cs_probe_ok (conv_of c) = true.
Proof. exact oracle_clause_probe. Qed.
Print Assumptions C09_oracle_clause_probe.

(* all six clauses: on every case inside the stated assumptions whose recorded observation is the model's observation of
   its script, the oracle reports no violation *)
Theorem C09_oracle_sound : forall c, c09_valid c -> c09_check c = true -> c09_oracle c = None.
Proof. exact oracle_sound. Qed.
Print Assumptions C09_oracle_sound.

(* validity is evaluated inside the check (c09_validb, per case, on every run): a case that passes it is either marked
   outside the stated assumptions (then the oracle reports nothing, by definition) or valid — no side condition *)
Theorem C09_oracle_sound_checked : forall c, c09_check c = true -> c09_oracle c = None.
Proof. exact oracle_sound_checked. Qed.
Print Assumptions C09_oracle_sound_checked.

Theorem C09_oracle_valid_decidable : forall c, c09_validb c = true -> c09_valid c.
Proof. exact c09_validb_spec. Qed.
Print Assumptions C09_oracle_valid_decidable.

Example C09_oracle_valid_inhabited :
  c09_validb (self_case sc_clean) = true /\ c09_validb (self_case sc_F1) = true /\ c09_validb (self_case sc_F2) = true.
Proof. exact valid_on_model. Qed.

(* ---------- the front ends of the driver (harness/cmd/c09/fronts.go) re-use model and oracle: why that is legitimate ---------- *)
(* metrics+<engine>: the decorator model hands the commit's error on unchanged (deco_commit eo := eo), so these two hold by
   definition; the content — that pkg/storage/metrics' Commit does so — is the driver's table extra.metrics_decorator_error_table,
   checked on every run *)
Theorem C09_front_metrics_transparent_by_definition : forall s b e, commit_via deco_commit s b e = commit s b e.
Proof. exact deco_transparent. Qed.
Print Assumptions C09_front_metrics_transparent_by_definition.

Theorem C09_front_identity_run_by_definition : forall f, (forall e, f e = e) -> forall ls s, run s (map (front_label f) ls) = run s ls.
Proof. exact front_id_run. Qed.
Print Assumptions C09_front_identity_run_by_definition.

(* the re-formatting decorator (seeded/C09-7) over an applied batch with unknown outcome is no engine of the model *)
Theorem C09_front_metrics_reformat_outside : forall s b,
  cond_holds (b_cond b) (k_idx (s (b_key b))) = true -> apply_batch s b <> s ->
  forall e', commit s b e' <> commit_via deco_commit_reformat s b (EnvUnknown true false).
Proof. exact deco_reformat_outside. Qed.
Print Assumptions C09_front_metrics_reformat_outside.

(* etcd+<engine>: one backend call per Txn, each class of backend answer is the same class of client answer *)
Theorem C09_front_etcd_class : forall backend op, tresp_class (etcd_txn backend op) = resp_class (backend op).
Proof. exact etcd_txn_class. Qed.
Print Assumptions C09_front_etcd_class.

(* C09_error_class through the front: an unknown outcome reaches the etcd client as the unknown-outcome RPC error *)
Theorem C09_front_etcd_error_class : forall r0 ls,
  Forall wf_label ls -> let s := run (init_state r0) ls in
  forall t th r, get_thread t (s_threads s) = Some th -> t_unk th = true -> t_pc th = PDone r ->
  etcd_txn (fun _ => r) (t_op th) = TErr true.
Proof. exact etcd_error_class. Qed.
Print Assumptions C09_front_etcd_error_class.

Example C09_front_etcd_error_class_inhabited :
  let s := run (init_state 10) (firstn 17 repaired_witness) in
  Forall wf_label (firstn 17 repaired_witness) /\
  exists th, get_thread 2 (s_threads s) = Some th /\ t_unk th = true /\ t_pc th = PDone (RErr true) /\
             op_is_write (t_op th) = true /\ snap s 13 0 = Some (v2, 13) /\ s_committed s = 12.
Proof. exact etcd_error_class_inhabited. Qed.

(* what the driver records of a TxnResponse determines it, and the oracle's class clause on the record says: unknown
   outcome => the client was given TErr true *)
Theorem C09_front_etcd_record_faithful : forall t1 t2, etcd_decode t1 = etcd_decode t2 -> t1 = t2.
Proof. exact etcd_decode_inj. Qed.
Print Assumptions C09_front_etcd_record_faithful.

Theorem C09_front_etcd_class_clause : forall t unk c q,
  class_ok {| o_d := OResp (etcd_decode t) unk; o_committed := c; o_queue := q |} = true <-> (unk = true -> t = TErr true).
Proof. exact etcd_class_clause. Qed.
Print Assumptions C09_front_etcd_class_clause.

(* every answer of the model to a create / update / delete has the shape the etcd shim keeps, so the recorded
   observation behind the front is the backend's answer itself (what c09_check compares) *)
Theorem C09_front_etcd_answers_kept : forall r0 ls,
  let s := run (init_state r0) ls in
  forall t th r, get_thread t (s_threads s) = Some th -> op_is_write (t_op th) = true -> t_pc th = PDone r ->
  resp_shape (t_op th) r = true /\ etcd_decode (etcd_txn (fun _ => r) (t_op th)) = r.
Proof. exact model_answers_shaped. Qed.
Print Assumptions C09_front_etcd_answers_kept.

(* a second hand-over of a failed write (seeded/C09-8) turns a landed unknown outcome into "failed condition" *)
Example C09_front_etcd_twice_refuted :
  let first := fun _ : wop => RErr true in
  let second := fun _ : wop => RCond 13 (Some ([118; 50], 12)) in
  let t := etcd_txn_twice first second (OUpdate 0 [118; 50] 11) in
  t = TResp false 13 (Some ([118; 50], 12)) /\
  class_ok {| o_d := OResp (etcd_decode t) true; o_committed := 13; o_queue := 1 |} = false.
Proof. exact etcd_twice_refuted. Qed.

(* /repo 1eb892a (tso.Commit raises, never lowers): every commit of the model raises, so it models both versions *)
Theorem C09_commit_raise_only : forall r0 ls l,
  Forall wf_label ls -> let s := run (init_state r0) ls in
  N.max (s_committed s) (s_committed (step s l)) = s_committed (step s l).
Proof. exact tso_commit_raise_only. Qed.
Print Assumptions C09_commit_raise_only.

(* ---------- a request is answered ---------- *)
(* in every state of every run (no assumption on the labels), a request that exists is answered once seven more of its
   own actions have been taken — whatever the other requests, the sequencer, the retry loop and the clock do in between
   and whatever the environment answers to its commits and reads *)
Theorem C09_request_terminates : forall r0 ls0 ls t th,
  let s := run (init_state r0) ls0 in
  get_thread t (s_threads s) = Some th -> (7 <= own_steps t ls)%nat ->
  exists th', get_thread t (s_threads (run s ls)) = Some th' /\ t_op th' = t_op th /\ thread_done th' = true.
Proof. exact request_terminates. Qed.
Print Assumptions C09_request_terminates.

Example C09_request_terminates_inhabited :
  let s := run (init_state 10) [LInvoke 0 (OCreate 0 [118])] in
  (exists th, get_thread 0 (s_threads s) = Some th /\ t_pc th = PStart) /\ own_steps 0 term_ls = 7%nat /\
  exists th', get_thread 0 (s_threads (run s term_ls)) = Some th' /\ t_pc th' = PDone (RErr true).
Proof. exact request_terminates_inhabited. Qed.

(* ---------- compaction's deletions (Model/RetryCompact.v) ----------
   XDel k r R: the engine delete of version record (k, r) issued by a compaction at revision R, a label of its own,
   interleaved arbitrarily.  Guard (xwf): R is a revision Backend.Compact may use — at most the committed revision and
   below every revision in the retry queue, which is what C09_compact_capped proves of the capped revision — and the
   premise of C07_safe_remove holds on the key's version records (cited, not re-proved: premise1 is that premise on one
   key's version list).  A lockstep simulation with the run without deletions (Proofs/RetryCompact.v, xrun_sim). *)
(* every answer, every published event, the committed revision, the retry queue and every read at a revision >= the floor
   are those of the run without the deletions *)
Theorem C09_compaction_invisible : forall r0 xs,
  xwf_all (init_state r0) xs -> let p := xrun (init_state r0) xs in let l := run (init_state r0) (base_labels xs) in
  Forall wf_label (base_labels xs) /\ s_threads p = s_threads l /\ s_events p = s_events l /\ s_committed p = s_committed l /\
  s_queue p = s_queue l /\ forall R k, floor_from 0 xs <= R -> snap p R k = snap l R k.
Proof. exact xrun_observables. Qed.
Print Assumptions C09_compaction_invisible.

(* C09_converges with compaction's deletions interleaved, incl. inside the retry window (reads below the floor are refused
   by the implementation, so R0 >= floor is the whole domain) *)
Theorem C09_converges_with_compaction : forall r0 xs,
  xwf_all (init_state r0) xs -> let p := xrun (init_state r0) xs in
  quiescentb p = true -> forall R0 k, floor_from 0 xs <= R0 -> converged_at p R0 k.
Proof. exact xconverges. Qed.
Print Assumptions C09_converges_with_compaction.

Theorem C09_compaction_floor_committed : forall r0 xs,
  xwf_all (init_state r0) xs -> floor_from 0 xs <= s_committed (xrun (init_state r0) xs).
Proof. exact floor_below_committed. Qed.
Print Assumptions C09_compaction_floor_committed.

(* the revision Backend.Compact answers with — computed in a state reached with deletions interleaved — satisfies the
   cap part of XDel's guard (C09_compact_capped carried over) *)
Theorem C09_compaction_answer_is_guard : forall r0 xs,
  xwf_all (init_state r0) xs -> let p := xrun (init_state r0) xs in
  forall t th req cur e, get_thread t (s_threads p) = Some th -> t_op th = OCompact req -> t_pc th = PCompact2 cur ->
  exists c, thread_step p (t_op th) (t_pc th) e = (p, PDone (RCompacted c), false) /\ cap_ok p c.
Proof. exact compact_answer_cap_ok. Qed.
Print Assumptions C09_compaction_answer_is_guard.

Theorem C09_compaction_valid_decidable : forall xs s, xwf_allb s xs = true -> xwf_all s xs.
Proof. exact xwf_allb_spec. Qed.
Print Assumptions C09_compaction_valid_decidable.

(* a delete lands with unknown outcome @13; a compaction at the capped revision 12 runs inside the retry window, a second
   one at 14 after the repair removes every record of the key: valid, quiescent, three events, nothing left physically *)
Example C09_compaction_inhabited :
  xwf_allb (init_state 10) xw_good = true /\
  let p := xrun (init_state 10) xw_good in
  quiescentb p = true /\ s_committed p = 14 /\ floor_from 0 xw_good = 14 /\ vers p 0 = [] /\
  length (vers (run (init_state 10) (base_labels xw_good)) 0) = 4%nat /\
  map ev_obs (s_events p) = [(VDelete, 0, xw_v2, 14, 12); (VPut, 0, xw_v2, 12, 12); (VCreate, 0, xw_v1, 11, 11)].
Proof. exact xw_good_ok. Qed.

(* the cap is needed: a compaction at 13 (not below the queued revision 13) inside the window removes the landed
   tombstone before the repair has read it; the repair finds nothing to announce: a watcher from 12 keeps k0 = v2 for good
   (no event after 12) while the store at 13 has no k0 *)
Example C09_compaction_cap_needed :
  xwf_allb (init_state 10) xw_bad = false /\ xwf_allb (init_state 10) xw_before = true /\
  let p0 := xrun (init_state 10) xw_before in let p := xrun (init_state 10) xw_bad in
  quiescentb p = true /\ s_committed p0 = 13 /\ s_committed p = 13 /\
  snap p0 12 0 = Some (xw_v2, 12) /\ events_after 12 (s_events p) = [] /\ snap p 13 0 = None /\ snap p0 13 0 = None /\
  map ev_obs (s_events p) = [(VPut, 0, xw_v2, 12, 12); (VCreate, 0, xw_v1, 11, 11)].
Proof. exact xw_bad_diverges. Qed.

(* ---------- the system drains ---------- *)
(* from every reachable state there is a continuation in which no new request arrives and the engine answers every call
   (ok_label: every LThread / LRetry carries EnvOk) that ends quiescent: every request answered, sequencer idle, every
   allocated revision committed, retry queue empty   [<- C09_request_terminates, C09_progress, one retry iteration with
   EnvOk removes the queue's head] *)
Theorem C09_drains : forall r0 ls,
  Forall wf_label ls ->
  exists ls', Forall wf_label ls' /\ Forall ok_label ls' /\ quiescentb (run (run (init_state r0) ls) ls') = true.
Proof. exact drains. Qed.
Print Assumptions C09_drains.

(* ... and there, store and event stream agree: the unconditional form of "repaired once the engine answers again" *)
Theorem C09_drains_and_converges : forall r0 ls,
  Forall wf_label ls ->
  exists ls', Forall wf_label ls' /\ Forall ok_label ls' /\
    let s := run (run (init_state r0) ls) ls' in quiescentb s = true /\ forall R0 k, converged_at s R0 k.
Proof. exact drains_and_converges. Qed.
Print Assumptions C09_drains_and_converges.

(* ---------- hypotheses of the theorems above are inhabited ---------- *)
(* C09_progress_not_blocked / C09_progress: an e_unc event in slot committed+1, sequencer idle, nothing in flight, dealt > committed *)
Example C09_progress_hypotheses_inhabited :
  let s := run (init_state 10) unc_slot_ls in
  Forall wf_label unc_slot_ls /\ s_seq s = SeqIdle /\ s_committed s = 10 /\ s_dealt s = 11 /\
  (exists ev, s_slots s (s_committed s + 1) = Some ev /\ e_unc ev = true /\ e_valid ev = false) /\
  no_live_request s /\ retry_rev (s_retry s) = None.
Proof. exact progress_hypotheses_inhabited. Qed.

Example C09_ack_durable_inhabited :
  let s := run (init_state 10) (firstn 5 repaired_witness) in
  Forall wf_label (firstn 5 repaired_witness) /\
  exists th, get_thread 0 (s_threads s) = Some th /\ t_pc th = PDone (ROk 11 None) /\ In (11, v1) (vers s 0).
Proof. exact ack_hypotheses_inhabited. Qed.

Example C09_front_metrics_reformat_outside_inhabited :
  let b := mk_batch 0 CAbsent 11 false [118] in
  cond_holds (b_cond b) (k_idx (empty_store (b_key b))) = true /\ apply_batch empty_store b <> empty_store.
Proof. exact reformat_hypotheses_inhabited. Qed.

(* ---------- the retry queue holds positive revisions ---------- *)
(* asyncFifoRetryImpl.MinRevision answers 0 for an empty queue (min_head [] = 0, as the Go code); the cap computation reads
   0 as "nothing queued". That is sound because no queued revision is 0: *)
Theorem C09_queue_revisions_positive : forall r0 s, reach r0 s -> forall ev t, In (ev, t) (s_queue s) -> 0 < e_rev ev.
Proof. exact reach_queue_pos. Qed.
Print Assumptions C09_queue_revisions_positive.

(* ---------- the fuel of the script interpreter's macro runners suffices ---------- *)
(* run_thread 12 answers the request; run_retry 8 ends the iteration; settle seq_fuel (64) brings the sequencer to rest
   whenever at most 21 allocated revisions are uncommitted *)
Theorem C09_fuel_run_thread : forall r0 s t envs gerr, reach r0 s -> answered (run_thread 12 t envs gerr s) t.
Proof. exact run_thread_fuel. Qed.
Print Assumptions C09_fuel_run_thread.

Theorem C09_fuel_run_retry : forall e gerr s, s_retry s = RIdle -> s_retry (run_retry 8 e gerr s) = RIdle.
Proof. exact run_retry_fuel. Qed.
Print Assumptions C09_fuel_run_retry.

Theorem C09_fuel_settle : forall r0 s held,
  reach r0 s -> s_dealt s - s_committed s <= 21 -> at_rest held (settle seq_fuel held s).
Proof. exact settle_fuel. Qed.
Print Assumptions C09_fuel_settle.
