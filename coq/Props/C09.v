(* C09 — Indeterminate storage outcomes are repaired, never mis-reported.
   Property theorems only: each is closed by `exact <lemma>` and followed by Print Assumptions.
   The system: Model/RetrySys.v (client write programs, sequencer with the enqueue-before-commit order, FIFO retry
   queue, one retry iteration in atomic actions, compaction cap; every commit takes an environment choice).
   A label list is an arbitrary interleaving of all of these, with arbitrary fault placements. *)
From KB Require Import Base.Cases Model.RetrySys Model.C09Cases
  Proofs.RetryBase Proofs.RetryInv1 Proofs.RetryInv2 Proofs.RetryProps Proofs.RetryInv3 Proofs.RetryInvX Proofs.RetryAck Proofs.C09Cases Proofs.C09Sim Proofs.C09Oracle Proofs.RetryWitness.
Local Open Scope N_scope.

(* ---------- error class ---------- *)
(* a request one of whose commits was answered "outcome unknown" ends in an RPC error of the unknown-outcome class —
   never Succeeded = true, never a condition failure; all verbs, both create fall-backs, every interleaving.
   (wf_label: unknown-outcome errors do not wrap a compare failure — true of every engine in /repo, see the
   classification table the driver checks; client values are not the deletion marker — C03; a repair commit is not
   answered with a bare abort.) *)
Theorem C09_error_class : forall r0 ls,
  Forall wf_label ls -> let s := run (init_state r0) ls in
  forall t th, get_thread t (s_threads s) = Some th -> t_unk th = true ->
  match t_pc th with
  | PDone r => r = RErr true
  | PNotify _ eo | PRespond _ eo => eo = Some (EUncertain false)
  | _ => False
  end.
Proof. exact error_class. Qed.
Print Assumptions C09_error_class.

(* ---------- acknowledged writes are durable ---------- *)
(* Succeeded = true (all verbs): the request's version — its allocated revision, its value, or the deletion marker — is in
   the key's version chain, and stays there along every continuation (whatever faults, repairs and writes follow) *)
Theorem C09_ack_durable : forall r0 ls,
  Forall wf_label ls -> let s := run (init_state r0) ls in
  forall t th h kv, get_thread t (s_threads s) = Some th -> t_pc th = PDone (ROk h kv) ->
  exists v, written (t_op th) v /\
    forall ls', In (h, v) (vers (run s ls') (op_key (t_op th))).
Proof. exact ack_durable. Qed.
Print Assumptions C09_ack_durable.

(* ---------- progress ---------- *)
(* whatever sits in the slot of the next revision — an unknown-outcome event included — the sequencer commits that
   revision within three of its own actions *)
Theorem C09_progress_not_blocked : forall r0 ls,
  let s := run (init_state r0) ls in
  forall ev, s_seq s = SeqIdle -> s_slots s (s_committed s + 1) = Some ev ->
  exists n, (n <= 3)%nat /\ s_committed (run s (seq_steps n)) = s_committed s + 1 /\ s_seq (run s (seq_steps n)) = SeqIdle.
Proof. exact progress_not_blocked. Qed.
Print Assumptions C09_progress_not_blocked.

(* every allocated, uncommitted revision is somewhere: with a request, with the repair write, in its slot, or with the sequencer *)
Theorem C09_progress_located : forall r0 ls,
  let s := run (init_state r0) ls in
  forall r, s_committed s < r <= s_dealt s -> located s r.
Proof. exact progress_located. Qed.
Print Assumptions C09_progress_located.

(* ... so once no request and no repair write is in flight, the sequencer alone commits every allocated revision *)
Theorem C09_progress : forall r0 ls,
  let s := run (init_state r0) ls in
  no_live_request s -> retry_rev (s_retry s) = None -> s_seq s = SeqIdle ->
  exists n, s_committed (run s (seq_steps n)) = s_dealt s /\ s_seq (run s (seq_steps n)) = SeqIdle.
Proof. exact progress_all_resolved. Qed.
Print Assumptions C09_progress.

(* ---------- compaction cap ---------- *)
(* the revision Backend.Compact answers with (and compacts at) is below every revision whose outcome is still open:
   every queued one, and every one not yet committed — in particular the event the sequencer holds between
   Append and SetCurrentRevision *)
Theorem C09_compact_capped : forall r0 ls,
  let s := run (init_state r0) ls in
  forall t th req cur e, get_thread t (s_threads s) = Some th -> t_op th = OCompact req -> t_pc th = PCompact2 cur ->
  exists c, thread_step s (t_op th) (t_pc th) e = (s, PDone (RCompacted c), false) /\
            c <= s_committed s /\ forall x, unresolved s x -> c < x.
Proof. exact compact_capped_run. Qed.
Print Assumptions C09_compact_capped.

(* why the order of backend.go:233/235 matters: with SetCurrentRevision before Append (step_gen true) a compaction that
   runs between the two compacts at the very revision of the unknown write that is about to be queued *)
Definition swapped_witness : list label :=
  [LInvoke 0 (OCreate 0 [118]); LThread 0 EnvOk; LThread 0 (EnvUnknown true false); LThread 0 EnvOk; LThread 0 EnvOk;
   LSeq; LSeq;                                   (* slot taken, classified; revision 11 committed — not yet queued *)
   LInvoke 1 (OCompact 0); LThread 1 EnvOk; LThread 1 EnvOk;
   LSeq].                                        (* now queued *)
Example C09_compact_swapped_order_refuted :
  let s := run_gen true (init_state 10) swapped_witness in
  (exists th, get_thread 1 (s_threads s) = Some th /\ t_pc th = PDone (RCompacted 11)) /\ qrevs s = [11].
Proof. vm_compute. split; [eexists; split; reflexivity|reflexivity]. Qed.
(* the same labels under the code's order: the compaction is capped at 10 *)
Example C09_compact_code_order :
  let s := run (init_state 10) swapped_witness in
  (exists th, get_thread 1 (s_threads s) = Some th /\ t_pc th = PDone (RCompacted 10)) /\ qrevs s = [11].
Proof. vm_compute. split; [eexists; split; reflexivity|reflexivity]. Qed.

(* ---------- convergence, full strength ----------
   For every label list (wf_label: the engine contract — an unknown-outcome error does not wrap a compare failure, a
   repair commit is not answered with a bare abort while its compare still holds — and client values differ from the
   deletion marker): any number of unknown outcomes per key outstanding at once, on any commit of any request, landed
   or not; unknown outcomes (landed or not) and definite failures on repair writes; client writes racing the repair
   between its read, its Deal and its commit; getter failures; empty values; compactions; clock ticks; any interleaving.
   In every quiescent state, for EVERY earlier revision R0 and every key: replaying the published events newer than R0
   over the snapshot at R0 gives the snapshot at the committed revision. *)
Theorem C09_converges : forall r0 ls,
  Forall wf_label ls -> let s := run (init_state r0) ls in
  quiescentb s = true -> forall R0 k, converged_at s R0 k.
Proof. exact converges. Qed.
Print Assumptions C09_converges.

(* the hypotheses are satisfiable by a run with faults: two landed unknown writes (update, delete), one that did not
   land, a repair write that itself lands with unknown outcome and is repaired again *)
Example C09_converges_hypotheses_inhabited :
  Forall wf_label repaired_witness /\
  let s := run (init_state 10) repaired_witness in
  quiescentb s = true /\ s_committed s = 18 /\ length (s_events s) = 4%nat /\
  snap s 12 0 = Some (v1, 11) /\ snap s 18 0 = Some (v2, 18) /\ snap s 12 1 = Some (v1, 12) /\ snap s 18 1 = None.
Proof. exact repaired_witness_ok. Qed.

(* the fault placements of the former findings C09-F1 (repair write answered "unknown" without being applied, or failing
   definitely) and C09-F2 (landed empty value), on the repaired retry loop: the landed write is announced exactly once *)
Example C09_former_findings_converge :
  (Forall wf_label F1_scenario /\ let s := run (init_state 10) F1_scenario in
     quiescentb s = true /\ s_committed s = 14 /\ snap s 11 0 = Some (v1, 11) /\ snap s 14 0 = Some (v2, 14) /\
     map ev_obs (s_events s) = [(VPut, 0, v2, 14, 14); (VCreate, 0, v1, 11, 11)]) /\
  (Forall wf_label F1_scenario_error /\ let s := run (init_state 10) F1_scenario_error in
     quiescentb s = true /\ s_committed s = 14 /\ snap s 14 0 = Some (v2, 14) /\
     map ev_obs (s_events s) = [(VPut, 0, v2, 14, 14); (VCreate, 0, v1, 11, 11)]) /\
  (Forall wf_label F2_scenario /\ let s := run (init_state 10) F2_scenario in
     quiescentb s = true /\ s_committed s = 13 /\ snap s 13 0 = Some ([], 13) /\
     map ev_obs (s_events s) = [(VPut, 0, [], 13, 13); (VCreate, 0, v1, 11, 11)]).
Proof. exact fixed_scenarios_ok. Qed.

(* the correspondence oracle on observations the model itself produces (instances; the general statement is
   C09_oracle_sound below) *)
Example C09_oracle_on_model :
  (c09_check (self_case sc_clean) = true /\ c09_oracle (self_case sc_clean) = None) /\
  (c09_check (self_case sc_F1) = true /\ c09_oracle (self_case sc_F1) = None) /\
  (c09_check (self_case sc_F2) = true /\ c09_oracle (self_case sc_F2) = None).
Proof. exact oracle_on_model. Qed.

(* ---------- soundness of the correspondence oracle, clause by clause ----------
   On a case that passed the check (the recorded observation IS the model's observation of the script) all six clauses of
   the oracle are theorems, and so is their conjunction C09_oracle_sound: c09_oracle c = None.
   c09_valid c: every script step is inside the stated assumptions (not step_outside; a DWrite carries a write request; no
   repair commit answered with a bare abort) — nothing else; it is decidable (C09_oracle_valid_decidable).
   c09_check c = true: the recorded observation and events are the model's, and (still evaluated per case on every run,
   although it is now a theorem for every well-formed script: C09_oracle_drained_quiescent) wherever the oracle's
   bookkeeping over observations regards a List as drained the model state is quiescent. *)
Theorem C09_oracle_clause_class : forall c,
  Forall dstep_wf (c_script c) -> c09_check c = true -> forallb class_ok (c_obs c) = true.
Proof. exact oracle_clause_class. Qed.
Print Assumptions C09_oracle_clause_class.

Theorem C09_oracle_clause_increasing : forall c,
  Forall dstep_wf (c_script c) -> c09_check c = true ->
  increasing (map (fun e : evobs => let '(_, _, _, r, _) := e in r) (c_events c)) = true.
Proof. exact oracle_clause_increasing. Qed.
Print Assumptions C09_oracle_clause_increasing.

Theorem C09_oracle_clause_converges : forall c,
  c09_valid c -> c09_check c = true -> cs_conv (conv_of c) = true.
Proof. exact oracle_clause_converges. Qed.
Print Assumptions C09_oracle_clause_converges.

(* (2,3) bookkeeping: every Compact header is below every unresolved revision the oracle reconstructs from the observation
   (the retry queue followed by the unknown events still in their slots or with the sequencer) and at most the committed
   revision. Proved through a simulation between the oracle's book and the model state over all eight macro steps. *)
Theorem C09_oracle_clause_book : forall c, c09_valid c -> c09_check c = true -> bk_ok (book_of c) = true.
Proof. exact oracle_clause_book. Qed.
Print Assumptions C09_oracle_clause_book.

(* the link c09_check also evaluates per case is a theorem for every well-formed script *)
Theorem C09_oracle_drained_quiescent : forall ds, Forall dstep_wf ds -> drained_quiescent minit book0 ds = true.
Proof. exact drained_quiescent_holds. Qed.
Print Assumptions C09_oracle_drained_quiescent.

(* (4a) every acknowledged write whose revision is committed when the script ends has exactly one delivered event with its
   revision, and that event carries the request's verb, key and value   [<- C09_ack_durable + unique event revisions] *)
Theorem C09_oracle_clause_ack : forall c, c09_valid c -> c09_check c = true ->
  forallb (ack_event_ok (c_events c) (final_committed (c_obs c))) (combine (c_script c) (c_obs c)) = true.
Proof. exact oracle_clause_ack. Qed.
Print Assumptions C09_oracle_clause_ack.

(* (6) after a drained List, a conditional update at the listed revision of a listed key succeeds   [<- the simulation
   (drained => quiescent) + Inv2: the listed revision is the newest version and the index agrees with it] *)
Theorem C09_oracle_clause_probe : forall c, c09_valid c -> c09_check c = true -> cs_probe_ok (conv_of c) = true.
Proof. exact oracle_clause_probe. Qed.
Print Assumptions C09_oracle_clause_probe.

(* all six clauses: on every case inside the stated assumptions whose recorded observation is the model's observation of
   its script, the oracle reports no violation *)
Theorem C09_oracle_sound : forall c, c09_valid c -> c09_check c = true -> c09_oracle c = None.
Proof. exact oracle_sound. Qed.
Print Assumptions C09_oracle_sound.

Theorem C09_oracle_valid_decidable : forall c, c09_validb c = true -> c09_valid c.
Proof. exact c09_validb_spec. Qed.
Print Assumptions C09_oracle_valid_decidable.

Example C09_oracle_valid_inhabited :
  c09_validb (self_case sc_clean) = true /\ c09_validb (self_case sc_F1) = true /\ c09_validb (self_case sc_F2) = true.
Proof. exact valid_on_model. Qed.
